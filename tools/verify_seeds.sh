#!/bin/bash
# Verifies staged seeded changes against the current /repo HEAD in a scratch worktree (outside /repo and /verif).
# For each seed: patch applies; unit suite (468) passes with it; demo fails with it; demo passes without it.
WT=/tmp/wt_verify
OUT=/tmp/verify_seeds.log
rm -rf $WT; git -C /repo worktree prune; git -C /repo worktree add -q --detach $WT HEAD || exit 1
export CARGO_TARGET_DIR=/tmp/wt_verify_target CARGO_NET_OFFLINE=true
mkdir -p $WT/tests
: > $OUT
for d in ${SEED_DIRS:-/verif/seeded/C*-*}; do
  id=$(basename $d)
  for v in .; do
    [ -f $d/patch.diff ] || continue
    cd $WT && git reset -q --hard HEAD && rm -f tests/*.rs
    if ! git apply $d/patch.diff 2>/tmp/apply.err; then echo "$id $v APPLY-FAILED $(head -2 /tmp/apply.err | tr '\n' ' ')" >> $OUT; git reset -q --hard HEAD; continue; fi
    lib=$(cargo test --offline --lib 2>&1 | grep -E "^test result" | head -1)
    cp $d/demo.rs tests/seed_demo.rs
    with=$(cargo test --offline --test seed_demo 2>&1 | grep -E "^test result|error\[|could not compile" | head -1)
    git reset -q --hard HEAD
    cp $d/demo.rs tests/seed_demo.rs
    without=$(cargo test --offline --test seed_demo 2>&1 | grep -E "^test result|error\[|could not compile" | head -1)
    rm -f tests/seed_demo.rs
    echo "$id $v | lib: $lib | demo with: $with | demo without: $without" >> $OUT
  done
done
cd / && git -C /repo worktree remove --force $WT; rm -rf /tmp/wt_verify_target
echo DONE >> $OUT
