#!/bin/bash
# tools/stage_and_verify.sh <Cxx> <letter> <worktree>: stages <worktree>/_seed/A.* as /verif/seeded/<Cxx>-<letter>/ and
# re-confirms it in that scratch worktree of /repo (reset to HEAD and cleaned first; its build output is reused):
# patch applies to HEAD; unit suite passes with it; demo fails with it; demo passes without it.
# Appends one line to /tmp/verify_seeds.log. The worktree is removed afterwards unless KEEP_WT=1.
P="$1"; L="$2"; WT="$3"
D=/verif/seeded/$P-$L
mkdir -p $D
cp $WT/_seed/A.patch.diff $D/patch.diff && cp $WT/_seed/A.demo.rs $D/demo.rs && cp $WT/_seed/A.notes.md $D/notes.md || { echo "$P-$L STAGE-FAILED" >> /tmp/verify_seeds.log; exit 1; }
export CARGO_NET_OFFLINE=true
cd $WT && git reset -q --hard HEAD && rm -rf tests/seed_demo.rs
[ "$(git rev-parse HEAD)" = "$(git -C /repo rev-parse HEAD)" ] || { echo "$P-$L WRONG-HEAD" >> /tmp/verify_seeds.log; exit 1; }
if ! git apply $D/patch.diff 2>/tmp/apply_$P.err; then echo "$P-$L APPLY-FAILED $(head -2 /tmp/apply_$P.err | tr '\n' ' ')" >> /tmp/verify_seeds.log; exit 1; fi
files=$(git diff --name-only | tr '\n' ' ')
lib=$(cargo test --offline --lib 2>&1 | grep -E "^test result|could not compile" | head -1)
mkdir -p tests; cp $D/demo.rs tests/seed_demo.rs
with=$(cargo test --offline --test seed_demo 2>&1 | grep -E "^test result|error\[|could not compile" | head -1)
git reset -q --hard HEAD
cp $D/demo.rs tests/seed_demo.rs
without=$(cargo test --offline --test seed_demo 2>&1 | grep -E "^test result|error\[|could not compile" | head -1)
rm -f tests/seed_demo.rs
echo "$P-$L | files: $files| lib: $lib | demo with: $with | demo without: $without" >> /tmp/verify_seeds.log
cd /
if [ "${KEEP_WT:-0}" != 1 ]; then git -C /repo worktree remove --force $WT; fi
