#!/bin/bash
# tools/try_seed.sh <seed-id> [property]: apply one seeded change to /repo, run the quick check, undo.
id="$1"; p="${2:-${id:0:3}}"
cd /verif
git -C /repo checkout -q -- .
git -C /repo apply /verif/seeded/$id/patch.diff || { echo APPLY-FAILED; exit 2; }
out=$(./check $p quick 2>&1); code=$?
git -C /repo checkout -q -- .
echo "$id [$p] exit=$code"; echo "$out" | grep -A2 '^VIOLATION' | grep -v "^--" | cut -c1-${WIDTH:-400} | head -${LINES_MAX:-9}; echo "$out" | tail -1 | cut -c1-200
