#!/bin/bash
# tools/sweep.sh <tier> <seed>... : runs every check at the given seeds; prints one line per run.
TIER="${1:-quick}"; shift
cd "$(dirname "$0")/.."
for seed in "$@"; do
  for p in C01 C02 C03 C04 C05 C06 C07 C08 C09 C10 C11 C12 C13 C14 C15 C16 C17 C18 C19 C20; do
    out=$(VERIF_SEED=$seed ./check $p $TIER 2>&1); code=$?
    echo "seed=$seed $p exit=$code $(echo "$out" | grep -c '^VIOLATION') violations; $(echo "$out" | tail -1 | cut -c1-200)"
    if [ $code -ne 0 ]; then echo "$out" | grep -A2 '^VIOLATION\|^INCONCLUSIVE' | cut -c1-1200 | head -20; fi
  done
done
