#!/bin/bash
# tools/run_seeds.sh [dir]: applies each seeded change to /repo, runs the quick check of the property it
# breaks, and undoes it straight afterwards. Prints one line per seed.
DIR="${1:-/verif/seeded}"
cd /verif
for d in ${SEED_DIRS:-$DIR/C*-*}; do
  sid=$(basename $d)
  id=$(echo $sid | cut -c1-3)
  for f in $d/patch.diff; do
    [ -f "$f" ] || continue
    v=$(basename $f | sed 's/.patch.diff//; s/patch.diff//')
    git -C /repo checkout -q -- . 
    if ! git -C /repo apply "$f" 2>/dev/null; then echo "$sid APPLY-FAILED"; git -C /repo checkout -q -- .; continue; fi
    out=$(./check $id quick 2>&1); code=$?
    git -C /repo reset -q; git -C /repo checkout -q -- .
    echo "$sid exit=$code $(echo "$out" | grep -A1 '^VIOLATION' | grep signature | head -4 | tr '\n' ';' | cut -c1-300) $(echo "$out" | grep -E '^ERROR|^INCONCLUSIVE' | head -1 | cut -c1-200)"
  done
done
git -C /repo status --short | head -3
