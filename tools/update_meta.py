#!/usr/bin/env python3
"""tools/update_meta.py <run_seeds log>: records the outcome of the latest battery run in each seeded/<id>/meta.json
(check_run.exit, check_run.violation_signatures). Never touches anything else in the file."""
import json, re, sys, os
log = sys.argv[1]
for line in open(log):
    m = re.match(r'^(C\d\d-[A-Z]) exit=(\d+)\s*(.*)$', line.strip())
    if not m:
        continue
    sid, code, rest = m.group(1), int(m.group(2)), m.group(3)
    sigs = sorted(set(re.findall(r'signature: ([^ ;]+(?:\[[^\]]*\])?)', rest)))
    path = f'/verif/seeded/{sid}/meta.json'
    if not os.path.exists(path):
        print('no meta for', sid)
        continue
    meta = json.load(open(path))
    cr = meta.setdefault('check_run', {})
    cr['how'] = 'tools/run_seeds.sh: git -C /repo apply patch.diff; ./check %s quick (VERIF_SEED=1); git -C /repo checkout -- .' % sid[:3]
    cr['exit'] = code
    cr['violation_signatures'] = sigs
    json.dump(meta, open(path, 'w'), indent=1, ensure_ascii=False)
    print(sid, code, len(sigs))
