#!/bin/bash
# tools/battery_snapshot.sh [seed-dir-glob]: the seeded-change battery for a background run started with
# `vp run --with-repo`: works on the snapshot of /verif it is started in and on the /repo snapshot in $VP_RUN_REPO
# (the harness is pointed at that snapshot), so /repo and /verif themselves stay untouched.
R="${VP_RUN_REPO:?needs vp run --with-repo}"
sed -i "s#path = \"/repo\"#path = \"$R\"#" harness/Cargo.toml miri/Cargo.toml
for d in ${1:-seeded/C*-*}; do
  sid=$(basename $d); id=${sid:0:3}
  [ -f $d/patch.diff ] || continue
  git -C $R checkout -q -- .
  if ! git -C $R apply "$PWD/$d/patch.diff" 2>/dev/null; then echo "$sid APPLY-FAILED"; continue; fi
  out=$(./check $id quick 2>&1); code=$?
  git -C $R checkout -q -- .
  echo "$sid exit=$code $(echo "$out" | grep -A1 '^VIOLATION' | grep signature | head -4 | tr '\n' ';' | cut -c1-300) $(echo "$out" | grep -E '^ERROR|^INCONCLUSIVE' | head -1 | cut -c1-200)"
done
