//! Reduced C05/C19 operation mix for the Miri tier (`cargo +nightly miri run`): undefined behaviour
//! in the one `unsafe` block of wax or in reachable dependency code, and dangling borrows in the
//! owned conversions, abort the interpreter with a non-zero exit status.
//!
//!   waxmiri <shard> <nshards> <seed> <count>

use wax::{CandidatePath, Glob, Program};

const EXPRS: &[&str] = &[
    "a", "a/b", "*.rs", "**/*.{rs,md}", "a/**/b", "/**/a", "**", "<a:2>", "<a/:0,2>b", "<*/>*", "{a,b/**}", "(?i)Ab[c]",
    "<a:0,2><b:1,>", "[!a-c]?", "a/<b/**:1,>", "x{a/b,c}", "**/{a,bc}", "<[0-9]:3>", "$a", "<<?>/>", "../**", "./a*",
    "金/*", "(?i)ǅ", "<a:1,3>/<b:2>", "{a,{b,c}d}", "</a:1,>b", "a[/]b", "<a*/:1,>*", "**/x/**", "", "a/", "{a/,b}c",
    "<ab:4>", "<a:0,>", "?*?", "a\\*b", "[a\\-z]", "(?-i)photos/**/*.(?i){jpg,jpeg}", "<*/:0,4>", "x<a/:3>", "<a/b:2>",
];
const BAD: &[&str] = &["[", "{a,", "<a:", "a//b", "**a", "{**}", "<*:1,>", "金\\", "(?x)a", "<a:2,1>", "{/a,b}", "a/**/**", "\\", "]"];
const PATHS: &[&str] = &["", "a", "a/b", "x/y/z.rs", "/a", "ab", "aa", "a/a/b", "金/x", "ǆ", "a\nb", "x/a/b/c", "b/x", "AB c"];

fn observe<'t, P: Program<'t>>(p: &P, n: usize) -> Vec<String> {
    let mut out = Vec::new();
    for path in PATHS {
        let cand = CandidatePath::from(*path);
        let m = p.matched(&cand);
        out.push(format!("{}:{}", p.is_match(*path), m.is_some()));
        if let Some(m) = m {
            let o = m.to_owned();
            for i in 0..=n + 1 {
                assert_eq!(m.get(i), o.get(i), "owned matched text differs at {} for {:?}", i, path);
                out.push(format!("{:?}", m.get(i)));
            }
            let o2 = m.into_owned();
            assert_eq!(o.complete(), o2.complete());
        }
    }
    out.push(format!("{:?} {:?} {:?} {:?}", p.depth(), p.text(), p.has_root(), p.is_exhaustive()));
    out
}

fn main() {
    let args: Vec<String> = std::env::args().collect();
    let shard: usize = args.get(1).and_then(|s| s.parse().ok()).unwrap_or(0);
    let nshards: usize = args.get(2).and_then(|s| s.parse().ok()).unwrap_or(1);
    let seed: usize = args.get(3).and_then(|s| s.parse().ok()).unwrap_or(1);
    let count: usize = args.get(4).and_then(|s| s.parse().ok()).unwrap_or(2);
    let mut ops = 0usize;
    // Failing expressions: structured errors with spans that index the expression.
    for (k, e) in BAD.iter().enumerate() {
        if k % nshards != shard {
            continue;
        }
        let err = Glob::new(e).err().expect("expected a build error");
        let _ = err.to_string();
        for l in err.locations() {
            let (s, n) = l.span();
            assert!(e.get(s..).and_then(|x| x.get(..n)).is_some(), "span {:?} does not index {:?}", (s, n), e);
            let _ = l.to_string();
            ops += 1;
        }
        println!("ERR-OK {:?}", e);
    }
    for k in 0..count {
        let idx = (seed * 7 + shard + k * nshards) % EXPRS.len();
        let e = EXPRS[idx];
        // The source string is heap allocated, overwritten and dropped before the owned glob is used.
        let mut source = String::from(e);
        let glob = Glob::new(&source).expect("corpus expression builds");
        let ncap = glob.captures().count();
        for c in glob.captures() {
            let (s, n) = c.span();
            assert!(source.get(s..).and_then(|x| x.get(..n)).is_some());
        }
        let base = observe(&glob, ncap);
        let owned = glob.clone().into_owned();
        let display = glob.to_string();
        let (prefix, post) = glob.clone().partition();
        let post_owned = post.map(Glob::into_owned);
        let any_text = wax::any([source.as_str(), "b/**"]).expect("any builds");
        let any_obs = observe(&any_text, 0);
        let any_owned = wax::any([owned.clone(), Glob::new("b/**").unwrap().into_owned()]).expect("any builds");
        drop(any_text);
        drop(glob);
        unsafe {
            for b in source.as_bytes_mut() {
                *b = b'#';
            }
        }
        drop(source);
        assert_eq!(observe(&owned, ncap), base, "owned glob behaves differently: {:?}", e);
        assert_eq!(observe(&any_owned, 0), any_obs, "owned combinator behaves differently: {:?}", e);
        let reparsed: Glob<'static> = display.parse().expect("display rebuilds");
        assert_eq!(observe(&reparsed, ncap), base, "FromStr glob behaves differently: {:?}", e);
        if let Some(p) = &post_owned {
            let _ = observe(p, 2);
            let _ = p.to_string();
        }
        let _ = prefix;
        let _ = owned.has_semantic_literals();
        let _ = wax::escape(e);
        ops += 6 * PATHS.len();
        println!("OK {:?} captures={}", e, ncap);
    }
    println!("MIRI-DONE shard={} operations={}", shard, ops);
}
