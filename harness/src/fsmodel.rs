//! Directory-tree specifications, builder and an independent traversal model (never `walkdir`).

use std::collections::BTreeSet;
use std::fs;
use std::os::unix::fs::{MetadataExt, PermissionsExt};
use std::path::{Path, PathBuf};

use crate::prng::Rng;

#[derive(Clone, Debug, PartialEq, Eq)]
pub enum Kind {
    Dir,
    File,
    /// Symbolic link with the given target text.
    Link(String),
}

#[derive(Clone, Debug)]
pub struct NodeSpec {
    /// Path relative to the tree root, `/`-separated.
    pub rel: String,
    pub kind: Kind,
    /// Directory made unreadable (mode 000) after the tree is built.
    pub unreadable: bool,
}

/// A file or directory whose name is not valid UTF-8 (created after the ordinary nodes; the
/// ordinary nodes, and everything derived from them, stay textual).
#[derive(Clone, Debug)]
pub struct RawNode {
    /// Path relative to the tree root as bytes, `/`-separated; parents come first in the list.
    pub rel: Vec<u8>,
    pub is_dir: bool,
}

#[derive(Clone, Debug, Default)]
pub struct TreeSpec {
    pub nodes: Vec<NodeSpec>,
    pub raw: Vec<RawNode>,
}

/// Names that are not valid UTF-8, with pairwise distinct lossy conversions.
pub const RAW_NAMES: &[&[u8]] = &[b"caf\xE9.txt", b"d\xFF", b"\xFF", b"a\xC3", b"\xF0\x9F.rs", b"\xFEbuild", b"x\x80y.md"];

pub const NAMES: &[&str] = &[
    "a", "b", "c", "A", "ab", "a.b", ".a", ".hidden", "金", "x", "y", "z", "src", "doc", "lib.rs", "main.rs",
    "a.txt", "b.md", "*", "?", "[a]", "{a,b}", "a,b", "a b", "$x", "(?i)", "<a>", "-", "!", "a\nb", "é",
    "B", "aB", ".git", "target", "1", "00", "foo", "bar", "..a", "a..", "x.y.z", "^", "a+", "~",
];

impl TreeSpec {
    pub fn has(&self, rel: &str) -> bool {
        self.nodes.iter().any(|n| n.rel == rel)
    }

    pub fn kind_of(&self, rel: &str) -> Option<&Kind> {
        self.nodes.iter().find(|n| n.rel == rel).map(|n| &n.kind)
    }

    pub fn add(&mut self, rel: &str, kind: Kind) -> bool {
        if rel.is_empty() || self.has(rel) {
            return false;
        }
        // Parents first.
        if let Some((parent, _)) = rel.rsplit_once('/') {
            match self.kind_of(parent) {
                Some(Kind::Dir) => {},
                Some(_) => return false,
                None => {
                    if !self.add(parent, Kind::Dir) {
                        return false;
                    }
                },
            }
        }
        self.nodes.push(NodeSpec {
            rel: rel.to_string(),
            kind,
            unreadable: false,
        });
        true
    }

    /// Plants one to three entries with names that are not valid UTF-8 (and, for directories, a
    /// few ordinary children) beneath the root or an ordinary directory.
    pub fn plant_raw(&mut self, rng: &mut Rng) {
        use std::os::unix::ffi::OsStrExt;
        let dirs: Vec<String> = self.dirs().into_iter().filter(|d| d.split('/').count() < 3).collect();
        for _ in 0..rng.range(1, 3) {
            let parent = if dirs.is_empty() || rng.chance(1, 3) { String::new() } else { rng.pick(&dirs).clone() };
            let name: &[u8] = *rng.pick(RAW_NAMES);
            let mut rel: Vec<u8> = parent.as_bytes().to_vec();
            if !rel.is_empty() {
                rel.push(b'/');
            }
            rel.extend_from_slice(name);
            if self.raw.iter().any(|r| r.rel == rel) {
                continue;
            }
            let is_dir = rng.chance(1, 2);
            self.raw.push(RawNode { rel: rel.clone(), is_dir });
            if is_dir {
                for _ in 0..rng.range(0, 3) {
                    let child = *rng.pick(NAMES);
                    let mut crel = rel.clone();
                    crel.push(b'/');
                    crel.extend_from_slice(std::ffi::OsStr::new(child).as_bytes());
                    if self.raw.iter().any(|r| r.rel == crel) {
                        continue;
                    }
                    let cdir = rng.chance(1, 3);
                    self.raw.push(RawNode { rel: crel.clone(), is_dir: cdir });
                    if cdir && rng.chance(1, 2) {
                        let g = *rng.pick(NAMES);
                        let mut grel = crel.clone();
                        grel.push(b'/');
                        grel.extend_from_slice(g.as_bytes());
                        self.raw.push(RawNode { rel: grel, is_dir: false });
                    }
                }
            }
        }
    }

    pub fn dirs(&self) -> Vec<String> {
        self.nodes
            .iter()
            .filter(|n| n.kind == Kind::Dir)
            .map(|n| n.rel.clone())
            .collect()
    }

    /// Adds a path of directories ending in a file or directory, if the names are usable.
    pub fn plant_path(&mut self, rel: &str, last_is_dir: bool) -> bool {
        if !valid_rel(rel) {
            return false;
        }
        self.add(rel, if last_is_dir { Kind::Dir } else { Kind::File })
    }
}

pub fn valid_name(n: &str) -> bool {
    !n.is_empty() && n != "." && n != ".." && !n.contains('/') && !n.contains('\0') && n.len() <= 200
}

pub fn valid_rel(rel: &str) -> bool {
    !rel.is_empty() && rel.len() < 900 && rel.split('/').all(valid_name)
}

pub struct TreeGen {
    pub max_depth: usize,
    pub max_nodes: usize,
    pub links: bool,
    pub faults: bool,
}

impl TreeGen {
    pub fn generate(&self, rng: &mut Rng) -> TreeSpec {
        let mut spec = TreeSpec::default();
        let target = rng.range(self.max_nodes / 3 + 1, self.max_nodes);
        let mut attempts = 0;
        while spec.nodes.len() < target && attempts < target * 6 {
            attempts += 1;
            let dirs = spec.dirs();
            let parent = if dirs.is_empty() || rng.chance(1, 4) {
                String::new()
            }
            else {
                rng.pick(&dirs).clone()
            };
            let depth = if parent.is_empty() { 0 } else { parent.split('/').count() };
            if depth >= self.max_depth {
                continue;
            }
            let name = *rng.pick(NAMES);
            let rel = if parent.is_empty() { name.to_string() } else { format!("{}/{}", parent, name) };
            let roll = rng.below(100);
            let kind = if roll < 45 {
                Kind::Dir
            }
            else if roll < 88 || !self.links {
                Kind::File
            }
            else {
                // Link targets: sibling file/dir, ancestor, nothing, absolute within tree later.
                let t = match rng.below(6) {
                    0 => "..".to_string(),
                    1 => ".".to_string(),
                    2 => "nonexistent-target".to_string(),
                    3 => {
                        // Some existing node relative to the link's parent.
                        if spec.nodes.is_empty() {
                            "nonexistent-target".to_string()
                        }
                        else {
                            let n = rng.pick(&spec.nodes).rel.clone();
                            let ups = "../".repeat(depth);
                            format!("{}{}", ups, n)
                        }
                    },
                    4 => "../..".to_string(),
                    _ => {
                        let dirs = spec.dirs();
                        if dirs.is_empty() {
                            "..".to_string()
                        }
                        else {
                            let n = rng.pick(&dirs).clone();
                            format!("{}{}", "../".repeat(depth), n)
                        }
                    },
                };
                Kind::Link(t)
            };
            spec.add(&rel, kind);
        }
        if self.faults {
            let dirs = spec.dirs();
            let k = rng.below(3);
            for _ in 0..k {
                if dirs.is_empty() {
                    break;
                }
                let d = rng.pick(&dirs).clone();
                if let Some(n) = spec.nodes.iter_mut().find(|n| n.rel == d) {
                    n.unreadable = true;
                }
            }
        }
        spec
    }
}

pub struct BuiltTree {
    /// Container directory (removed on drop).
    pub container: PathBuf,
    /// The tree root.
    pub root: PathBuf,
    unreadable: Vec<PathBuf>,
}

impl BuiltTree {
    pub fn build(container: &Path, spec: &TreeSpec) -> std::io::Result<BuiltTree> {
        let _ = fs::remove_dir_all(container);
        fs::create_dir_all(container)?;
        // Two padding levels that contain nothing else, so that links which climb out of the
        // tree (`..`, `../..`) never reach directories shared with other cases.
        let root = container.join("p").join("q").join("root");
        fs::create_dir_all(&root)?;
        for n in &spec.nodes {
            let p = root.join(&n.rel);
            match &n.kind {
                Kind::Dir => fs::create_dir(&p)?,
                Kind::File => fs::write(&p, b"")?,
                Kind::Link(t) => std::os::unix::fs::symlink(t, &p)?,
            }
        }
        for r in &spec.raw {
            use std::os::unix::ffi::OsStrExt;
            let p = root.join(std::ffi::OsStr::from_bytes(&r.rel));
            if r.is_dir {
                fs::create_dir(&p)?;
            }
            else {
                fs::write(&p, b"")?;
            }
        }
        let mut unreadable = Vec::new();
        let mut marked: Vec<&NodeSpec> = spec.nodes.iter().filter(|n| n.unreadable).collect();
        marked.sort_by_key(|n| std::cmp::Reverse(n.rel.len()));
        for n in marked {
            let p = root.join(&n.rel);
            fs::set_permissions(&p, fs::Permissions::from_mode(0o000))?;
            unreadable.push(p);
        }
        Ok(BuiltTree {
            container: container.to_path_buf(),
            root,
            unreadable,
        })
    }
}

impl Drop for BuiltTree {
    fn drop(&mut self) {
        for p in &self.unreadable {
            let _ = fs::set_permissions(p, fs::Permissions::from_mode(0o755));
        }
        let _ = fs::remove_dir_all(&self.container);
    }
}

#[derive(Clone, Debug, PartialEq, Eq, PartialOrd, Ord)]
pub struct MEntry {
    /// Path as the walk spells it: start joined with the relative components.
    pub path: PathBuf,
    /// Components relative to the start of the traversal, `/`-joined ("" for the start itself).
    pub rel: String,
    pub depth: usize,
    /// The walk descends into this entry (real directory, or followed link to a directory).
    pub descends: bool,
    /// The entry is reported as a directory by the walker (a directory that is the start of the
    /// walk through a symbolic link is reported as a link).
    pub is_dir: bool,
    pub is_err: bool,
}

pub struct ModelWalk {
    pub entries: Vec<MEntry>,
}

fn join_rel(rel: &str, name: &str) -> String {
    if rel.is_empty() {
        name.to_string()
    }
    else {
        format!("{}/{}", rel, name)
    }
}

/// Independent traversal: `read_dir` + `symlink_metadata`/`metadata`, with the documented link
/// policy. Error entries are produced for unreadable directories, dangling links (when following)
/// and links that re-enter one of their ancestors (when following).
pub fn model_walk(start: &Path, follow: bool) -> ModelWalk {
    let mut out = Vec::new();
    fn visit(path: &Path, rel: &str, depth: usize, follow: bool, ancestors: &mut Vec<(u64, u64)>, out: &mut Vec<MEntry>) {
        let lmeta = match fs::symlink_metadata(path) {
            Ok(m) => m,
            Err(_) => {
                out.push(MEntry {
                    path: path.to_path_buf(),
                    rel: rel.to_string(),
                    depth,
                    descends: false,
                    is_dir: false,
                    is_err: true,
                });
                return;
            },
        };
        let is_link = lmeta.file_type().is_symlink();
        let mut descends = false;
        let mut is_dir = false;
        let mut id = (lmeta.dev(), lmeta.ino());
        if is_link {
            if follow || depth == 0 {
                match fs::metadata(path) {
                    Err(_) => {
                        if follow {
                            out.push(MEntry {
                                path: path.to_path_buf(),
                                rel: rel.to_string(),
                                depth,
                                descends: false,
                                is_dir: false,
                                is_err: true,
                            });
                            return;
                        }
                        // Not following: a dangling start is reported as a link file.
                    },
                    Ok(m) => {
                        if m.is_dir() {
                            id = (m.dev(), m.ino());
                            if follow && ancestors.contains(&id) {
                                out.push(MEntry {
                                    path: path.to_path_buf(),
                                    rel: rel.to_string(),
                                    depth,
                                    descends: false,
                                    is_dir: false,
                                    is_err: true,
                                });
                                return;
                            }
                            descends = true;
                            // A followed link reports the type of its target; an unfollowed
                            // start link is reported as a link.
                            is_dir = follow;
                        }
                    },
                }
            }
        }
        else if lmeta.is_dir() {
            descends = true;
            is_dir = true;
        }
        out.push(MEntry {
            path: path.to_path_buf(),
            rel: rel.to_string(),
            depth,
            descends,
            is_dir,
            is_err: false,
        });
        if descends {
            match fs::read_dir(path) {
                Err(_) => {
                    out.push(MEntry {
                        path: path.to_path_buf(),
                        rel: rel.to_string(),
                        depth,
                        descends: false,
                        is_dir: false,
                        is_err: true,
                    });
                },
                Ok(rd) => {
                    let mut names: Vec<std::ffi::OsString> = rd.flatten().map(|e| e.file_name()).collect();
                    names.sort();
                    ancestors.push(id);
                    for name in names {
                        let child = path.join(&name);
                        let crel = join_rel(rel, &name.to_string_lossy());
                        visit(&child, &crel, depth + 1, follow, ancestors, out);
                    }
                    ancestors.pop();
                },
            }
        }
    }
    let mut ancestors = Vec::new();
    visit(start, "", 0, follow, &mut ancestors, &mut out);
    ModelWalk { entries: out }
}

impl ModelWalk {
    pub fn oks(&self) -> impl Iterator<Item = &MEntry> {
        self.entries.iter().filter(|e| !e.is_err)
    }

    pub fn errs(&self) -> impl Iterator<Item = &MEntry> {
        self.entries.iter().filter(|e| e.is_err)
    }

    /// Removes everything strictly beneath the given directories (relative paths).
    pub fn without_descendants_of(&self, dirs: &BTreeSet<String>) -> Vec<MEntry> {
        self.entries
            .iter()
            .filter(|e| !dirs.iter().any(|d| is_strictly_beneath(&e.rel, d) || (e.is_err && e.rel == *d)))
            .cloned()
            .collect()
    }
}

pub fn is_strictly_beneath(rel: &str, dir: &str) -> bool {
    if dir.is_empty() {
        !rel.is_empty()
    }
    else {
        rel.len() > dir.len() && rel.starts_with(dir) && rel.as_bytes()[dir.len()] == b'/'
    }
}

/// Relative path text of `path` below `base` (component-wise), `/`-joined.
pub fn rel_of(path: &Path, base: &Path) -> Option<String> {
    path.strip_prefix(base).ok().map(|r| {
        r.components()
            .map(|c| c.as_os_str().to_string_lossy().to_string())
            .collect::<Vec<_>>()
            .join("/")
    })
}
