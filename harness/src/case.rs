//! A built glob together with its reference parse, hooked regex and candidate paths.

use std::panic::{catch_unwind, AssertUnwindSafe};

use regex_syntax::hir::Hir;
use wax::{Glob, Program};

use crate::gen::path as gpath;
use crate::prng::Rng;
use crate::refmodel::hir as rhir;
use crate::refmodel::matcher::ModelPattern;
use crate::refmodel::parse::{self, Ast};
use crate::refmodel::sample;

pub enum BuildOutcome<'e> {
    Built(Glob<'e>),
    Err(wax::BuildError),
    Panicked(String),
}

pub fn panic_message(p: Box<dyn std::any::Any + Send>) -> String {
    if let Some(s) = p.downcast_ref::<&str>() {
        (*s).to_string()
    }
    else if let Some(s) = p.downcast_ref::<String>() {
        s.clone()
    }
    else {
        "<non-string panic payload>".to_string()
    }
}

pub fn build(expr: &str) -> BuildOutcome<'_> {
    match catch_unwind(AssertUnwindSafe(|| Glob::new(expr))) {
        Ok(Ok(g)) => BuildOutcome::Built(g),
        Ok(Err(e)) => BuildOutcome::Err(e),
        Err(p) => BuildOutcome::Panicked(panic_message(p)),
    }
}

/// Runs `f`, converting a panic into `None`. Calls into `wax` outside C05 are wrapped so that a
/// monitor neither dies on nor reports panics that are C05's to judge.
pub fn guarded<T>(f: impl FnOnce() -> T) -> Option<T> {
    catch_unwind(AssertUnwindSafe(f)).ok()
}

pub struct Case<'e> {
    pub expr: &'e str,
    pub glob: Glob<'e>,
    /// Reference parse; `None` when the model's parser rejects the text.
    pub ast: Option<Ast>,
    /// Model pattern; only when the reference parse succeeded.
    pub model: Option<ModelPattern>,
    pub pattern: String,
    pub hir: Option<Hir>,
    pub paths: Vec<String>,
    pub alphabet: Vec<char>,
}

pub struct PathBudget {
    pub model: usize,
    pub hir: usize,
    pub mutations: usize,
    pub generic: bool,
}

impl PathBudget {
    pub fn quick() -> Self {
        PathBudget {
            model: 10,
            hir: 12,
            mutations: 24,
            generic: true,
        }
    }

    pub fn thorough() -> Self {
        PathBudget {
            model: 18,
            hir: 24,
            mutations: 48,
            generic: true,
        }
    }
}

pub fn pool_for(alphabet: &[char]) -> Vec<char> {
    let mut pool: Vec<char> = vec!['a', 'b', 'A', 'x', '/', '.', '\n', '金', '0', 'é', ' '];
    for c in alphabet {
        if !pool.contains(c) {
            pool.push(*c);
        }
    }
    pool
}

pub fn candidates(
    ast: Option<&Ast>,
    hir: Option<&Hir>,
    rng: &mut Rng,
    budget: &PathBudget,
) -> (Vec<String>, Vec<char>) {
    let alphabet = ast.map(sample::alphabet_of).unwrap_or_default();
    let pool = pool_for(&alphabet);
    let mut out: Vec<String> = Vec::new();
    let mut push = |s: String, out: &mut Vec<String>| {
        if s.len() <= 2048 && !out.contains(&s) {
            out.push(s);
        }
    };
    if let Some(ast) = ast {
        for s in sample::sample(ast, rng, budget.model) {
            push(s, &mut out);
        }
    }
    if let Some(hir) = hir {
        for s in rhir::sample(hir, rng, &pool, budget.hir) {
            push(s, &mut out);
        }
    }
    let seeds: Vec<String> = out.clone();
    if !seeds.is_empty() {
        for _ in 0..budget.mutations {
            let base = rng.pick(&seeds).clone();
            let mut m = gpath::mutate(rng, &base, &alphabet);
            if rng.chance(1, 4) {
                m = gpath::mutate(rng, &m, &alphabet);
            }
            push(m, &mut out);
        }
    }
    if budget.generic {
        for s in gpath::generic_pool() {
            push(s, &mut out);
        }
    }
    (out, alphabet)
}

/// Expression → candidate paths that are always tried with it.
pub const PINNED_PATHS: &[(&str, &[&str])] = &[
    ("/x{a/**,**/b}", &["/xa", "/xa/b", "/x/b", "/xa/c"]),
    ("/**/a", &["/xa", "/x/a", "/a", "/x/ya"]),
    ("/**/a/b", &["/xa/b", "/x/a/b"]),
    ("<**/\\<:0,1>/**/ǆ", &["/<ǆ", "/ǆ", "a/</ǆ", "/x/ǆ"]),
];

/// Combinators that are always queried (when the stream reaches their first member).
pub const PINNED_ANY: &[&[&str]] = &[&["**/b", "", "a/**"]];

impl<'e> Case<'e> {
    /// Builds the glob (guarded) and gathers everything the group-A monitors need. Returns `None`
    /// if the expression does not build (or panics while building; C05 judges that).
    pub fn new(expr: &'e str, rng: &mut Rng, budget: &PathBudget) -> Option<Case<'e>> {
        let glob = match build(expr) {
            BuildOutcome::Built(g) => g,
            _ => return None,
        };
        let ast = parse::parse(expr).ok();
        let pattern = glob.verif_program_pattern().to_string();
        let hir = rhir::parse(&pattern);
        let (mut paths, alphabet) = candidates(ast.as_ref(), hir.as_ref(), rng, budget);
        // Candidate paths pinned to particular corpus expressions (witnesses of listed findings,
        // so that every listed finding is exercised by every run whatever the seed).
        for (e, pinned) in PINNED_PATHS {
            if *e == expr {
                for q in pinned.iter() {
                    if !paths.iter().any(|x| x == q) {
                        paths.push(q.to_string());
                    }
                }
            }
        }
        let model = ast.clone().map(ModelPattern::single);
        Some(Case {
            expr,
            glob,
            ast,
            model,
            pattern,
            hir,
            paths,
            alphabet,
        })
    }

    pub fn is_match(&self, p: &str) -> Option<bool> {
        guarded(|| self.glob.is_match(p))
    }
}
