//! Independent three-valued matcher for the documented dialect: MUST and MAY languages.
//!
//! `MUST(g)`: paths every reasonable reading of the documentation accepts.
//! `MAY(g) ⊇ MUST(g)`: paths some reasonable reading accepts.
//! A violation is `impl accepts p ∧ p ∉ MAY(g)` or `impl rejects p ∧ p ∈ MUST(g)`.

use std::cell::RefCell;
use std::collections::{BTreeSet, HashMap};
use std::rc::Rc;

use crate::refmodel::parse::{Ast, Node, Seq, Tok};

#[derive(Clone, Copy, Debug, PartialEq, Eq)]
pub enum Mode {
    Must,
    May,
}

/// Named switches that make the model reproduce one specific, known deviation of the
/// implementation. Used only to attribute a disagreement to a listed known finding.
#[derive(Clone, Copy, Debug, Default, PartialEq, Eq)]
pub struct Quirks {
    /// A rooted leading tree wildcard (`/**/x`) accepts any text after the root (`/.*`),
    /// including partial components.
    pub rooted_leading_tree_is_dotstar: bool,
    /// A tree wildcard at the edge of the body of a repetition that can iterate more than once is
    /// encoded as if every iteration were at the edge of the expression: any edge form is accepted
    /// in every iteration.
    pub rep_edge_tree_any_form: bool,
}

#[derive(Debug)]
pub struct Budget;

thread_local! {
    static FOLD_CACHE: RefCell<HashMap<(char, char), bool>> = RefCell::new(HashMap::new());
}

/// Whether the `regex` crate's simple case folding relates the two characters (trusted base for
/// single characters only).
pub fn fold_eq(a: char, b: char) -> bool {
    if a == b {
        return true;
    }
    if a.is_ascii() && b.is_ascii() {
        return a.eq_ignore_ascii_case(&b);
    }
    FOLD_CACHE.with(|cache| {
        if let Some(v) = cache.borrow().get(&(a, b)) {
            return *v;
        }
        let pattern = format!("^(?i:{})$", regex::escape(&a.to_string()));
        let v = regex::Regex::new(&pattern)
            .map(|re| re.is_match(&b.to_string()))
            .unwrap_or(false);
        cache.borrow_mut().insert((a, b), v);
        v
    })
}

/// Static facts about tokens that the matcher needs.
#[derive(Clone, Debug, Default)]
pub struct StaticInfo {
    /// Token ids of tree wildcards with an absorbed leading separator that are the first token of
    /// the whole expression (through first positions of nested branches): they root the glob.
    pub rooting_first: BTreeSet<usize>,
    /// Token ids of tree wildcards that are the last token of the whole expression (through last
    /// positions of nested branches): the end of the path may stand in for their trailing
    /// separator.
    pub static_last: BTreeSet<usize>,
    /// Token ids of tree wildcards that are the first token of the whole expression.
    pub static_first: BTreeSet<usize>,
    /// Token ids of tree wildcards at the first (last) position, through nested branches, of the
    /// body of a repetition that can iterate more than once and that itself begins (ends) the
    /// whole expression through every enclosing branch.
    pub rep_edge: BTreeSet<usize>,
}

pub fn static_info(ast: &Ast) -> StaticInfo {
    fn go(seq: &Seq, info: &mut StaticInfo) {
        if let Some(t) = seq.toks.first() {
            match &t.node {
                Node::Tree { lead, .. } => {
                    info.static_first.insert(t.id);
                    if *lead {
                        info.rooting_first.insert(t.id);
                    }
                },
                Node::Alt(bs) => {
                    for b in bs {
                        go(b, info);
                    }
                },
                Node::Rep { body, .. } => go(body, info),
                _ => {},
            }
        }
    }
    fn last(seq: &Seq, info: &mut StaticInfo) {
        if let Some(t) = seq.toks.last() {
            match &t.node {
                Node::Tree { .. } => {
                    info.static_last.insert(t.id);
                },
                Node::Alt(bs) => {
                    for b in bs {
                        last(b, info);
                    }
                },
                Node::Rep { body, .. } => last(body, info),
                _ => {},
            }
        }
    }
    fn edge(seq: &Seq, first: bool, info: &mut StaticInfo) {
        let t = if first { seq.toks.first() } else { seq.toks.last() };
        if let Some(t) = t {
            match &t.node {
                Node::Tree { .. } => {
                    info.rep_edge.insert(t.id);
                },
                Node::Alt(bs) => {
                    for b in bs {
                        edge(b, first, info);
                    }
                },
                Node::Rep { body, .. } => edge(body, first, info),
                _ => {},
            }
        }
    }
    // The listed deviation: a tree wildcard at the edge of a repetition body is encoded in its
    // expression-edge form in *every* iteration — but only when the repetition itself stands at
    // that edge of the whole expression through every enclosing branch (otherwise the encoder
    // composes a middle position and emits the intermediate form, which is right). Narrowed in
    // round 7: marking every repetition body hid a seeded change (C10-H) behind this quirk.
    fn reps(seq: &Seq, at_first: bool, at_last: bool, info: &mut StaticInfo) {
        let n = seq.toks.len();
        for (i, t) in seq.toks.iter().enumerate() {
            let f = at_first && i == 0;
            let l = at_last && i + 1 == n;
            match &t.node {
                Node::Alt(bs) => {
                    for b in bs {
                        reps(b, f, l, info);
                    }
                },
                Node::Rep { body, hi, .. } => {
                    if *hi != Some(1) {
                        if f {
                            edge(body, true, info);
                        }
                        if l {
                            edge(body, false, info);
                        }
                    }
                    reps(body, f, l, info);
                },
                _ => {},
            }
        }
    }
    let mut info = StaticInfo::default();
    go(&ast.seq, &mut info);
    last(&ast.seq, &mut info);
    reps(&ast.seq, true, true, &mut info);
    info
}

pub struct Matcher<'a> {
    pub p: &'a [char],
    pub mode: Mode,
    pub quirks: Quirks,
    pub info: &'a StaticInfo,
    memo: HashMap<(usize, usize), Rc<Vec<usize>>>,
    pub steps: usize,
    pub budget: usize,
}

fn strict_components_then_sep(t: &[char]) -> bool {
    // (C "/")* with C = [^/]+
    if t.is_empty() {
        return true;
    }
    if *t.last().unwrap() != '/' || t[0] == '/' {
        return false;
    }
    !t.windows(2).any(|w| w[0] == '/' && w[1] == '/')
}

fn strict_sep_then_components(t: &[char]) -> bool {
    // ("/" C)*
    if t.is_empty() {
        return true;
    }
    if t[0] != '/' || *t.last().unwrap() == '/' {
        return false;
    }
    !t.windows(2).any(|w| w[0] == '/' && w[1] == '/')
}

impl<'a> Matcher<'a> {
    pub fn new(p: &'a [char], mode: Mode, quirks: Quirks, info: &'a StaticInfo) -> Self {
        Matcher {
            p,
            mode,
            quirks,
            info,
            memo: HashMap::new(),
            steps: 0,
            budget: 400_000,
        }
    }

    fn tick(&mut self, n: usize) -> Result<(), Budget> {
        self.steps += n;
        if self.steps > self.budget {
            Err(Budget)
        }
        else {
            Ok(())
        }
    }

    fn tree_ok(&self, tok: &Tok, lead: bool, trail: bool, i: usize, j: usize) -> bool {
        let n = self.p.len();
        let t = &self.p[i..j];
        let rooting = lead && i == 0 && self.info.rooting_first.contains(&tok.id);
        let last = self.info.static_last.contains(&tok.id);
        if self.mode == Mode::May && self.quirks.rep_edge_tree_any_form && self.info.rep_edge.contains(&tok.id) {
            if t.is_empty() || t[0] == '/' || *t.last().unwrap() == '/' {
                return true;
            }
        }
        if last && trail && (j == n || self.mode == Mode::Must) {
            // `a/**/` at the very end: whether the trailing separator is required or the end of
            // the path may delimit the last component is open.
            return match self.mode {
                Mode::Must => false,
                Mode::May => {
                    if !lead {
                        true
                    }
                    else if rooting {
                        !t.is_empty() && t[0] == '/'
                    }
                    else {
                        t.is_empty() || t[0] == '/'
                    }
                },
            };
        }
        match self.mode {
            Mode::Must => match (lead, trail) {
                (true, true) => !t.is_empty() && t[0] == '/' && strict_components_then_sep(&t[1..]),
                (false, true) => {
                    // Open on the left: only certain when it begins the whole expression.
                    self.info.static_first.contains(&tok.id)
                        && strict_components_then_sep(t)
                        && i == 0
                },
                (true, false) => {
                    if rooting {
                        // `/**`: the root is mandatory.
                        (t.len() == 1 && t[0] == '/') || (!t.is_empty() && strict_sep_then_components(t))
                    }
                    else {
                        // Open on the right: only certain when it ends the whole expression.
                        last && strict_sep_then_components(t) && j == n
                    }
                },
                (false, false) => true,
            },
            Mode::May => {
                match (lead, trail) {
                    (true, true) => {
                        if rooting && self.quirks.rooted_leading_tree_is_dotstar {
                            return !t.is_empty() && t[0] == '/';
                        }
                        !t.is_empty() && t[0] == '/' && *t.last().unwrap() == '/'
                    },
                    (false, true) => t.is_empty() || *t.last().unwrap() == '/',
                    (true, false) => {
                        if rooting {
                            !t.is_empty() && t[0] == '/'
                        }
                        else {
                            t.is_empty() || t[0] == '/'
                        }
                    },
                    (false, false) => true,
                }
            },
        }
    }

    pub fn tok_ends(&mut self, tok: &Tok, i: usize) -> Result<Rc<Vec<usize>>, Budget> {
        if let Some(v) = self.memo.get(&(tok.id, i)) {
            return Ok(v.clone());
        }
        self.tick(1)?;
        let n = self.p.len();
        let mut ends: Vec<usize> = Vec::new();
        match &tok.node {
            Node::Lit { text, ci } => {
                let mut j = i;
                let mut ok = true;
                for c in text.chars() {
                    if j >= n {
                        ok = false;
                        break;
                    }
                    let d = self.p[j];
                    let eq = if !*ci {
                        c == d
                    }
                    else {
                        match self.mode {
                            Mode::Must => c == d || (c.is_ascii() && d.is_ascii() && c.eq_ignore_ascii_case(&d)),
                            Mode::May => fold_eq(c, d),
                        }
                    };
                    if !eq {
                        ok = false;
                        break;
                    }
                    j += 1;
                }
                if ok {
                    ends.push(j);
                }
            },
            Node::Sep => {
                if i < n && self.p[i] == '/' {
                    ends.push(i + 1);
                }
            },
            Node::One => {
                if i < n && self.p[i] != '/' {
                    ends.push(i + 1);
                }
            },
            Node::Zom { .. } => {
                let mut j = i;
                ends.push(j);
                while j < n && self.p[j] != '/' {
                    j += 1;
                    ends.push(j);
                }
                self.tick(ends.len())?;
            },
            Node::Class { neg, items } => {
                if i < n && self.p[i] != '/' {
                    let c = self.p[i];
                    let inside = items.iter().any(|(a, b)| *a <= c && c <= *b);
                    if inside != *neg {
                        ends.push(i + 1);
                    }
                }
            },
            Node::Tree { lead, trail } => {
                for j in i..=n {
                    if self.tree_ok(tok, *lead, *trail, i, j) {
                        ends.push(j);
                    }
                }
                self.tick(n - i + 1)?;
            },
            Node::Alt(branches) => {
                let mut set = BTreeSet::new();
                for b in branches {
                    for e in self.seq_ends(&b.toks, i)? {
                        set.insert(e);
                    }
                }
                ends = set.into_iter().collect();
            },
            Node::Rep { body, lo, hi } => {
                let span = n - i;
                let lo_eff = (*lo).min((2 * span + 2) as u64) as usize;
                // Number of counts to union over beyond `lo`.
                let extra = match hi {
                    Some(hi) => ((*hi).saturating_sub(*lo)).min(span as u64 + 1) as usize,
                    None => span + 1,
                };
                let mut cur: BTreeSet<usize> = BTreeSet::new();
                cur.insert(i);
                let mut acc: BTreeSet<usize> = BTreeSet::new();
                let mut k = 0usize;
                loop {
                    if k >= lo_eff {
                        for e in &cur {
                            acc.insert(*e);
                        }
                    }
                    if k >= lo_eff + extra || cur.is_empty() {
                        break;
                    }
                    let mut next = BTreeSet::new();
                    for s in &cur {
                        for e in self.seq_ends(&body.toks, *s)? {
                            next.insert(e);
                        }
                    }
                    cur = next;
                    k += 1;
                }
                ends = acc.into_iter().collect();
            },
        }
        let rc = Rc::new(ends);
        self.memo.insert((tok.id, i), rc.clone());
        Ok(rc)
    }

    pub fn seq_ends(&mut self, toks: &[Tok], i: usize) -> Result<BTreeSet<usize>, Budget> {
        let mut cur: BTreeSet<usize> = BTreeSet::new();
        cur.insert(i);
        for tok in toks {
            let mut next = BTreeSet::new();
            for s in &cur {
                let ends = self.tok_ends(tok, *s)?;
                for e in ends.iter() {
                    next.insert(*e);
                }
            }
            self.tick(cur.len())?;
            cur = next;
            if cur.is_empty() {
                break;
            }
        }
        Ok(cur)
    }
}

#[derive(Clone, Copy, Debug, PartialEq, Eq)]
pub enum Tri {
    Yes,
    No,
    Unknown,
}

/// A pattern for the model: one expression, or a union (for `any`).
pub struct ModelPattern {
    pub asts: Vec<(Ast, StaticInfo)>,
}

impl ModelPattern {
    pub fn single(ast: Ast) -> Self {
        let info = static_info(&ast);
        ModelPattern {
            asts: vec![(ast, info)],
        }
    }

    pub fn union(asts: Vec<Ast>) -> Self {
        ModelPattern {
            asts: asts
                .into_iter()
                .map(|a| {
                    let i = static_info(&a);
                    (a, i)
                })
                .collect(),
        }
    }

    pub fn documented(&self) -> bool {
        self.asts.iter().all(|(a, _)| a.notes.is_empty())
    }

    pub fn matches(&self, path: &[char], mode: Mode, quirks: Quirks) -> Tri {
        let mut unknown = false;
        for (ast, info) in &self.asts {
            let mut m = Matcher::new(path, mode, quirks, info);
            match m.seq_ends(&ast.seq.toks, 0) {
                Ok(ends) => {
                    if ends.contains(&path.len()) {
                        return Tri::Yes;
                    }
                },
                Err(Budget) => unknown = true,
            }
        }
        if unknown {
            Tri::Unknown
        }
        else {
            Tri::No
        }
    }
}

pub fn chars(s: &str) -> Vec<char> {
    s.chars().collect()
}
