pub mod hir;
pub mod matcher;
pub mod parse;
pub mod sample;
pub mod transform;
