pub mod hir;
pub mod matcher;
pub mod parse;
pub mod rules;
pub mod sample;
pub mod transform;
