//! Independent, three-valued restatement of the documented rules (C06) on the reference AST.

use std::collections::BTreeSet;

use crate::refmodel::parse::{Ast, Node, Seq, Tok};

#[derive(Clone, Copy, Debug, PartialEq, Eq, PartialOrd, Ord)]
pub enum Kind {
    /// Separator or tree wildcard (component boundary).
    Boundary,
    /// Separator, or tree wildcard with an absorbed leading separator: roots an expression.
    Rooting,
    Zom,
    Other,
}

#[derive(Clone, Debug, PartialEq, Eq)]
pub enum Verdict {
    MustAccept,
    MustReject(&'static str),
    DontCare(&'static str),
}

fn first_kinds(tok: &Tok, out: &mut BTreeSet<Kind>) {
    match &tok.node {
        Node::Sep => {
            out.insert(Kind::Boundary);
            out.insert(Kind::Rooting);
        },
        Node::Tree { lead, .. } => {
            out.insert(Kind::Boundary);
            if *lead {
                out.insert(Kind::Rooting);
            }
        },
        Node::Zom { .. } => {
            out.insert(Kind::Zom);
        },
        Node::Alt(bs) => {
            for b in bs {
                if let Some(t) = b.toks.first() {
                    first_kinds(t, out);
                }
            }
        },
        Node::Rep { body, .. } => {
            if let Some(t) = body.toks.first() {
                first_kinds(t, out);
            }
        },
        _ => {
            out.insert(Kind::Other);
        },
    }
}

fn last_kinds(tok: &Tok, out: &mut BTreeSet<Kind>) {
    match &tok.node {
        Node::Sep | Node::Tree { .. } => {
            out.insert(Kind::Boundary);
        },
        Node::Zom { .. } => {
            out.insert(Kind::Zom);
        },
        Node::Alt(bs) => {
            for b in bs {
                if let Some(t) = b.toks.last() {
                    last_kinds(t, out);
                }
            }
        },
        Node::Rep { body, .. } => {
            if let Some(t) = body.toks.last() {
                last_kinds(t, out);
            }
        },
        _ => {
            out.insert(Kind::Other);
        },
    }
}

struct Judge {
    reject: Option<&'static str>,
    dont_care: Option<&'static str>,
}

impl Judge {
    fn reject(&mut self, why: &'static str) {
        if self.reject.is_none() {
            self.reject = Some(why);
        }
    }

    fn dont_care(&mut self, why: &'static str) {
        if self.dont_care.is_none() {
            self.dont_care = Some(why);
        }
    }

    fn seq(&mut self, seq: &Seq, leftmost: bool) {
        for w in seq.toks.windows(2) {
            let mut l = BTreeSet::new();
            let mut r = BTreeSet::new();
            last_kinds(&w[0], &mut l);
            first_kinds(&w[1], &mut r);
            if l.contains(&Kind::Boundary) && r.contains(&Kind::Boundary) {
                self.reject("adjacent component boundaries");
            }
            if l.contains(&Kind::Zom) && r.contains(&Kind::Zom) {
                self.reject("adjacent zero-or-more wildcards");
            }
        }
        for (i, t) in seq.toks.iter().enumerate() {
            let leftmost = leftmost && i == 0;
            match &t.node {
                Node::Alt(bs) => {
                    for b in bs {
                        if b.toks.len() == 1 && matches!(b.toks[0].node, Node::Tree { .. }) {
                            self.reject("branch consists solely of a tree wildcard");
                        }
                        if leftmost {
                            let mut f = BTreeSet::new();
                            if let Some(t0) = b.toks.first() {
                                first_kinds(t0, &mut f);
                            }
                            if f.contains(&Kind::Rooting) {
                                self.reject("alternation branch can root the expression");
                            }
                        }
                        self.seq(b, leftmost);
                    }
                },
                Node::Rep { body, lo, hi } => {
                    if let Some(h) = hi {
                        if lo > h || (*lo == 0 && *h == 0) {
                            self.reject("repetition bounds misordered or degenerate");
                        }
                    }
                    if body.toks.len() == 1 {
                        match body.toks[0].node {
                            Node::Tree { .. } => self.reject("repetition body is solely a tree wildcard"),
                            Node::Sep => self.reject("repetition body is solely a separator"),
                            Node::Zom { .. } => self.reject("repetition body is solely a zero-or-more wildcard"),
                            _ => {},
                        }
                    }
                    let mut f = BTreeSet::new();
                    let mut l = BTreeSet::new();
                    if let (Some(t0), Some(tn)) = (body.toks.first(), body.toks.last()) {
                        first_kinds(t0, &mut f);
                        last_kinds(tn, &mut l);
                    }
                    if l.contains(&Kind::Boundary) && f.contains(&Kind::Boundary) && body.toks.len() > 1 {
                        if *hi == Some(1) {
                            // The body cannot be repeated more than once: open.
                            self.dont_care("boundary at both ends of a body that cannot repeat");
                        }
                        else {
                            self.reject("adjacent component boundaries across iterations");
                        }
                    }
                    if l.contains(&Kind::Zom) && f.contains(&Kind::Zom) && *hi != Some(1) {
                        // The rule sentence quantifies zero-or-more adjacency over branch choices
                        // only, not over iterations: open.
                        self.dont_care("zero-or-more wildcards adjacent across iterations");
                    }
                    if leftmost && *lo == 0 && f.contains(&Kind::Rooting) {
                        self.reject("optional repetition can root the expression");
                    }
                    self.seq(body, leftmost);
                },
                _ => {},
            }
        }
    }
}

/// Upper estimate of whether the invariant-size rule could apply.
fn size_rule_may_apply(ast: &Ast) -> bool {
    let mut product: u128 = 1;
    ast.seq.walk(&mut |t, _| {
        if let Node::Rep { lo, hi, .. } = &t.node {
            let n = hi.unwrap_or(*lo).max(*lo).max(1) as u128;
            product = product.saturating_mul(n);
        }
    });
    (ast.expr.len() as u128).saturating_mul(4).saturating_mul(product) >= 0x8000
}

pub fn judge(ast: &Ast) -> Verdict {
    if !ast.notes.is_empty() {
        return Verdict::DontCare("undocumented syntax");
    }
    let mut j = Judge {
        reject: None,
        dont_care: None,
    };
    j.seq(&ast.seq, true);
    if let Some(why) = j.reject {
        return Verdict::MustReject(why);
    }
    if let Some(why) = j.dont_care {
        return Verdict::DontCare(why);
    }
    // The one clear-cut instance of the size rule: a single literal token whose text alone is at
    // or above the limit (64 KiB) is invariant text of that size wherever it stands and whatever
    // stands next to it.
    let mut huge_literal = false;
    ast.seq.walk(&mut |t, _| {
        if let Node::Lit { text, .. } = &t.node {
            if text.len() >= 0x10000 {
                huge_literal = true;
            }
        }
    });
    if huge_literal {
        return Verdict::MustReject("a literal at or above the invariant size limit");
    }
    if size_rule_may_apply(ast) {
        return Verdict::DontCare("invariant size limit may apply");
    }
    Verdict::MustAccept
}
