//! Random derivations of a compiled regular expression (text obtained through hook H1), found by
//! walking the `regex-syntax` HIR. These are strings the *implementation* accepts, discovered
//! without consulting the reference model.

use regex_syntax::hir::{Class, Hir, HirKind};

use crate::prng::Rng;

#[derive(Clone, Copy, Debug, PartialEq, Eq)]
pub enum Strategy {
    Uniform,
    /// Prefer few separators / short repetitions.
    Shallow,
    /// Prefer many separators / long repetitions.
    Deep,
}

pub fn parse(pattern: &str) -> Option<Hir> {
    regex_syntax::ParserBuilder::new()
        .nest_limit(1000)
        .build()
        .parse(pattern)
        .ok()
}

pub struct HirSampler<'a> {
    pub rng: &'a mut Rng,
    pub strategy: Strategy,
    pub pool: &'a [char],
    pub limit: usize,
}

impl<'a> HirSampler<'a> {
    fn class_char(&mut self, class: &Class) -> Option<char> {
        match class {
            Class::Unicode(u) => {
                let ranges = u.ranges();
                if ranges.is_empty() {
                    return None;
                }
                // Prefer pool characters that fall inside the class.
                if self.rng.chance(4, 5) {
                    let mut candidates: Vec<char> = Vec::new();
                    for c in self.pool {
                        if ranges.iter().any(|r| r.start() <= *c && *c <= r.end()) {
                            candidates.push(*c);
                        }
                    }
                    match self.strategy {
                        Strategy::Deep => {
                            if candidates.contains(&'/') && self.rng.chance(1, 2) {
                                return Some('/');
                            }
                        },
                        Strategy::Shallow => {
                            if candidates.len() > 1 {
                                candidates.retain(|c| *c != '/');
                            }
                        },
                        Strategy::Uniform => {},
                    }
                    if !candidates.is_empty() {
                        return Some(*self.rng.pick(&candidates));
                    }
                }
                let r = self.rng.pick(ranges);
                let (a, b) = (r.start() as u32, r.end() as u32);
                let off = self.rng.below(((b - a) as usize + 1).min(128)) as u32;
                char::from_u32(a + off).or(Some(r.start()))
            },
            Class::Bytes(b) => {
                let ranges = b.ranges();
                if ranges.is_empty() {
                    return None;
                }
                let r = self.rng.pick(ranges);
                let c = r.start();
                if c.is_ascii() {
                    Some(c as char)
                }
                else {
                    None
                }
            },
        }
    }

    pub fn go(&mut self, hir: &Hir, out: &mut String) -> bool {
        if out.len() > self.limit {
            return false;
        }
        match hir.kind() {
            HirKind::Empty => true,
            HirKind::Literal(lit) => match std::str::from_utf8(&lit.0) {
                Ok(s) => {
                    out.push_str(s);
                    true
                },
                Err(_) => false,
            },
            HirKind::Class(class) => match self.class_char(class) {
                Some(c) => {
                    out.push(c);
                    true
                },
                None => false,
            },
            HirKind::Look(_) => true,
            HirKind::Repetition(rep) => {
                let min = rep.min as usize;
                let max = rep.max.map(|m| m as usize);
                if min > 64 {
                    return false;
                }
                let n = match self.strategy {
                    Strategy::Shallow => {
                        if self.rng.chance(3, 4) {
                            min
                        }
                        else {
                            max.map_or(min + 1, |m| m.min(min + 1))
                        }
                    },
                    Strategy::Deep => {
                        let hi = max.map_or(min + 4, |m| m.min(min + 4));
                        self.rng.range(min, hi)
                    },
                    Strategy::Uniform => {
                        let hi = max.map_or(min + 3, |m| m.min(min + 3));
                        if self.rng.chance(1, 3) {
                            min
                        }
                        else {
                            self.rng.range(min, hi)
                        }
                    },
                };
                for _ in 0..n {
                    if !self.go(&rep.sub, out) {
                        return false;
                    }
                }
                true
            },
            HirKind::Capture(cap) => self.go(&cap.sub, out),
            HirKind::Concat(items) => {
                for h in items {
                    if !self.go(h, out) {
                        return false;
                    }
                }
                true
            },
            HirKind::Alternation(items) => {
                // Try a random branch; fall back to the others when it is a dead end.
                let mut order: Vec<usize> = (0..items.len()).collect();
                self.rng.shuffle(&mut order);
                for idx in order {
                    let mark = out.len();
                    if self.go(&items[idx], out) {
                        return true;
                    }
                    out.truncate(mark);
                }
                false
            },
        }
    }
}

/// Samples up to `n` strings from the language of `hir` (anchors are ignored: the patterns wax
/// emits are anchored at both ends, so every derivation is a full match).
pub fn sample(hir: &Hir, rng: &mut Rng, pool: &[char], n: usize) -> Vec<String> {
    let mut out = Vec::new();
    for k in 0..n {
        let strategy = match k % 3 {
            0 => Strategy::Uniform,
            1 => Strategy::Shallow,
            _ => Strategy::Deep,
        };
        let mut s = String::new();
        let mut sampler = HirSampler {
            rng,
            strategy,
            pool,
            limit: 512,
        };
        if sampler.go(hir, &mut s) {
            out.push(s);
        }
    }
    out
}
