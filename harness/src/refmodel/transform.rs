//! Unparsing of the reference AST and the syntactic transformations behind the metamorphic
//! relations of C07 (branch substitution, unrolling, wrapping).

use crate::refmodel::parse::{Ast, Node, Seq, Tok, ESCAPABLE};

pub fn has_flags(ast: &Ast) -> bool {
    ast.expr.contains("(?")
}

fn lit(text: &str, out: &mut String) {
    for c in text.chars() {
        if ESCAPABLE.contains(c) {
            out.push('\\');
        }
        out.push(c);
    }
}

pub fn unparse_tok(t: &Tok, explicit: bool, out: &mut String) {
    match &t.node {
        Node::Lit { text, ci } => {
            if explicit {
                out.push_str(if *ci { "(?i)" } else { "(?-i)" });
            }
            lit(text, out);
        },
        Node::Sep => out.push('/'),
        Node::One => out.push('?'),
        Node::Zom { lazy } => out.push(if *lazy { '$' } else { '*' }),
        Node::Class { neg, items } => {
            out.push('[');
            if *neg {
                out.push('!');
            }
            let esc = |c: char, out: &mut String| {
                if c == '[' || c == ']' || c == '-' {
                    out.push('\\');
                }
                out.push(c);
            };
            for (i, (a, b)) in items.iter().enumerate() {
                if a == b {
                    // A leading `!` would negate; it cannot be escaped, so spell it as a range.
                    if *a == '!' && i == 0 && !*neg {
                        out.push_str("!-!");
                    }
                    else {
                        esc(*a, out);
                    }
                }
                else {
                    esc(*a, out);
                    out.push('-');
                    esc(*b, out);
                }
            }
            out.push(']');
        },
        Node::Tree { lead, trail } => {
            if *lead {
                out.push('/');
            }
            out.push_str("**");
            if *trail {
                out.push('/');
            }
        },
        Node::Alt(bs) => {
            out.push('{');
            for (i, b) in bs.iter().enumerate() {
                if i > 0 {
                    out.push(',');
                }
                unparse_seq(b, explicit, out);
            }
            out.push('}');
        },
        Node::Rep { body, lo, hi } => {
            out.push('<');
            unparse_seq(body, explicit, out);
            out.push(':');
            out.push_str(&lo.to_string());
            match hi {
                Some(h) if *h == *lo => {},
                Some(h) => {
                    out.push(',');
                    out.push_str(&h.to_string());
                },
                None => out.push(','),
            }
            out.push('>');
        },
    }
}

pub fn unparse_seq(seq: &Seq, explicit: bool, out: &mut String) {
    for t in &seq.toks {
        unparse_tok(t, explicit, out);
    }
}

pub fn unparse(ast: &Ast) -> String {
    let explicit = has_flags(ast);
    let mut s = String::new();
    unparse_seq(&ast.seq, explicit, &mut s);
    s
}

/// A related family: the original (re-spelled) and the expressions whose union must equal it
/// (`exact`) or be contained in it (`!exact`).
#[derive(Clone, Debug)]
pub struct Family {
    pub kind: &'static str,
    pub whole: String,
    pub parts: Vec<String>,
    pub exact: bool,
    pub depth: usize,
}

/// Rebuilds the sequence with the token `target` replaced by the given token lists (one output
/// per replacement).
fn replace_in_seq(seq: &Seq, target: usize, replacement: &[Tok]) -> Seq {
    let mut toks = Vec::new();
    for t in &seq.toks {
        if t.id == target {
            toks.extend(replacement.iter().cloned());
            continue;
        }
        let node = match &t.node {
            Node::Alt(bs) => Node::Alt(bs.iter().map(|b| replace_in_seq(b, target, replacement)).collect()),
            Node::Rep { body, lo, hi } => Node::Rep {
                body: Box::new(replace_in_seq(body, target, replacement)),
                lo: *lo,
                hi: *hi,
            },
            n => n.clone(),
        };
        toks.push(Tok {
            node,
            span: t.span,
            core: t.core,
            id: t.id,
        });
    }
    Seq {
        toks,
        span: seq.span,
    }
}

fn seq_is_empty_somewhere(seq: &Seq) -> bool {
    if seq.toks.is_empty() {
        return true;
    }
    seq.toks.iter().any(|t| match &t.node {
        Node::Alt(bs) => bs.iter().any(seq_is_empty_somewhere),
        Node::Rep { body, .. } => seq_is_empty_somewhere(body),
        _ => false,
    })
}

/// A (sub-)expression that consists solely of a tree wildcard matches everything by a documented
/// special case; transformations that create one are not comparable.
/// Two zero-or-more wildcards that became neighbours would be re-read as a tree wildcard.
fn adjacent_zoms(seq: &Seq) -> bool {
    seq.toks.windows(2).any(|w| matches!(w[0].node, Node::Zom { .. }) && matches!(w[1].node, Node::Zom { .. }))
        || seq.toks.iter().any(|t| match &t.node {
            Node::Alt(bs) => bs.iter().any(adjacent_zoms),
            Node::Rep { body, .. } => adjacent_zoms(body),
            _ => false,
        })
}

fn lone_tree(seq: &Seq) -> bool {
    if adjacent_zoms(seq) {
        return true;
    }
    if seq.toks.len() == 1 && matches!(seq.toks[0].node, Node::Tree { .. }) {
        return true;
    }
    seq.toks.iter().any(|t| match &t.node {
        Node::Alt(bs) => bs.iter().any(lone_tree),
        Node::Rep { body, .. } => lone_tree(body),
        _ => false,
    })
}

pub const UNROLL_CAP: u64 = 4;

pub fn families(ast: &Ast) -> Vec<Family> {
    let explicit = has_flags(ast);
    let mut out = Vec::new();
    let mut whole = String::new();
    unparse_seq(&ast.seq, explicit, &mut whole);
    // Targets: branch tokens that are not inside a repetition that can iterate more than once
    // (inside such a repetition every iteration chooses independently, so substitution and
    // unrolling of an inner branch are not laws).
    let mut targets: Vec<(Tok, usize)> = Vec::new();
    fn collect(seq: &Seq, d: usize, targets: &mut Vec<(Tok, usize)>) {
        for t in &seq.toks {
            match &t.node {
                Node::Alt(bs) => {
                    targets.push((t.clone(), d));
                    for b in bs {
                        collect(b, d + 1, targets);
                    }
                },
                Node::Rep { body, lo, hi } => {
                    targets.push((t.clone(), d));
                    if *lo == 1 && *hi == Some(1) {
                        collect(body, d + 1, targets);
                    }
                },
                _ => {},
            }
        }
    }
    collect(&ast.seq, 0, &mut targets);
    for (t, depth) in targets {
        match &t.node {
            Node::Alt(bs) => {
                let mut parts = Vec::new();
                let mut valid = true;
                for b in bs {
                    let s = replace_in_seq(&ast.seq, t.id, &b.toks);
                    if lone_tree(&s) {
                        valid = false;
                    }
                    let mut e = String::new();
                    unparse_seq(&s, explicit, &mut e);
                    parts.push(e);
                }
                if !valid {
                    continue;
                }
                out.push(Family {
                    kind: "alternation-is-union",
                    whole: whole.clone(),
                    parts,
                    exact: true,
                    depth,
                });
            },
            Node::Rep { body, lo, hi } => {
                if *lo > UNROLL_CAP {
                    continue;
                }
                let top = match hi {
                    Some(h) => (*h).min(UNROLL_CAP),
                    None => UNROLL_CAP,
                };
                let exact = matches!(hi, Some(h) if *h <= UNROLL_CAP);
                let mut parts = Vec::new();
                let mut ok = true;
                for k in *lo..=top {
                    let mut rep: Vec<Tok> = Vec::new();
                    for _ in 0..k {
                        rep.extend(body.toks.iter().cloned());
                    }
                    let s = replace_in_seq(&ast.seq, t.id, &rep);
                    if lone_tree(&s) {
                        ok = false;
                        break;
                    }
                    if seq_is_empty_somewhere(&s) {
                        if s.toks.is_empty() {
                            // The whole expression became empty: the empty glob.
                            parts.push(String::new());
                            continue;
                        }
                        ok = false;
                        break;
                    }
                    let mut e = String::new();
                    unparse_seq(&s, explicit, &mut e);
                    parts.push(e);
                }
                if ok && !parts.is_empty() {
                    out.push(Family {
                        kind: "repetition-is-iteration",
                        whole: whole.clone(),
                        parts,
                        exact,
                        depth,
                    });
                }
            },
            _ => {},
        }
    }
    // Wrapping the whole expression.
    if !whole.is_empty() {
        for (kind, w) in [
            ("wrap-braces", format!("{{{}}}", whole)),
            ("wrap-once", format!("<{}:1>", whole)),
            ("wrap-once-range", format!("<{}:1,1>", whole)),
        ] {
            out.push(Family {
                kind,
                whole: w,
                parts: vec![whole.clone()],
                exact: true,
                depth: 0,
            });
        }
        // Wrapping one top-level token.
        for t in &ast.seq.toks {
            if matches!(t.node, Node::Tree { .. }) {
                continue;
            }
            let wrapped = Tok {
                node: Node::Alt(vec![Seq {
                    toks: vec![t.clone()],
                    span: t.span,
                }]),
                span: t.span,
                core: t.core,
                id: usize::MAX - 1,
            };
            let s = replace_in_seq(&ast.seq, t.id, &[wrapped]);
            let mut e = String::new();
            unparse_seq(&s, explicit, &mut e);
            out.push(Family {
                kind: "wrap-token-braces",
                whole: e,
                parts: vec![whole.clone()],
                exact: true,
                depth: 0,
            });
        }
    }
    out
}
