//! Independent recursive-descent parser of the documented glob dialect (README text), producing
//! the reference AST. Shares no code with `wax`.

use std::collections::BTreeSet;

pub type Span = (usize, usize);

#[derive(Clone, Debug, PartialEq)]
pub enum Node {
    Lit { text: String, ci: bool },
    Sep,
    One,
    Zom { lazy: bool },
    Class { neg: bool, items: Vec<(char, char)> },
    /// `lead`/`trail`: the token absorbed a leading / trailing separator.
    Tree { lead: bool, trail: bool },
    Alt(Vec<Seq>),
    Rep { body: Box<Seq>, lo: u64, hi: Option<u64> },
}

#[derive(Clone, Debug, PartialEq)]
pub struct Tok {
    pub node: Node,
    /// Span including any flags written immediately before the token.
    pub span: Span,
    /// Span of the token proper (flags before it excluded).
    pub core: Span,
    pub id: usize,
}

#[derive(Clone, Debug, PartialEq, Default)]
pub struct Seq {
    pub toks: Vec<Tok>,
    pub span: Span,
}

#[derive(Clone, Debug)]
pub struct Ast {
    pub expr: String,
    pub seq: Seq,
    /// Reasons why this expression is outside the documented syntax although plausible; the
    /// model answers "unknown" for such expressions.
    pub notes: BTreeSet<&'static str>,
    pub ntoks: usize,
}

#[derive(Clone, Debug)]
pub struct SyntaxError {
    pub pos: usize,
    pub msg: &'static str,
}

#[derive(Clone, Copy, PartialEq, Eq)]
enum Term {
    Top,
    Alt,
    Rep,
}

struct P<'a> {
    s: &'a str,
    b: &'a [u8],
    pos: usize,
    ci: bool,
    notes: BTreeSet<&'static str>,
    next_id: usize,
    depth: usize,
}

pub const LITERAL_EXCLUDED: &str = "/?*$:<>()[]{},\\";
pub const ESCAPABLE: &str = "?*$:<>()[]{},";
pub const MAX_DEPTH: usize = 200;

impl<'a> P<'a> {
    fn peek(&self) -> Option<char> {
        self.s[self.pos..].chars().next()
    }

    fn starts(&self, t: &str) -> bool {
        self.s[self.pos..].starts_with(t)
    }

    fn at_term(&self, term: Term) -> bool {
        match term {
            Term::Top => self.pos == self.b.len(),
            Term::Alt => self.starts(",") || self.starts("}"),
            Term::Rep => self.starts(":") || self.starts(">"),
        }
    }

    /// Parses zero or more flag groups. Returns whether any were consumed. `apply` controls
    /// whether the flag state is updated (look-ahead does not update it).
    fn flags(&mut self, apply: bool) -> Result<bool, SyntaxError> {
        let mut any = false;
        loop {
            if !self.starts("(?") {
                return Ok(any);
            }
            let save = (self.pos, self.ci);
            self.pos += 2;
            let mut n = 0;
            loop {
                if self.starts("-i") {
                    self.pos += 2;
                    if apply {
                        self.ci = false;
                    }
                    n += 1;
                }
                else if self.starts("i") {
                    self.pos += 1;
                    if apply {
                        self.ci = true;
                    }
                    n += 1;
                }
                else {
                    break;
                }
            }
            if n == 0 || !self.starts(")") {
                self.pos = save.0;
                self.ci = save.1;
                return Err(SyntaxError {
                    pos: save.0,
                    msg: "malformed flags",
                });
            }
            self.pos += 1;
            any = true;
        }
    }

    fn id(&mut self) -> usize {
        let id = self.next_id;
        self.next_id += 1;
        id
    }

    fn seq(&mut self, term: Term) -> Result<Seq, SyntaxError> {
        self.depth += 1;
        if self.depth > MAX_DEPTH {
            self.notes.insert("nesting-too-deep-for-model");
            return Err(SyntaxError {
                pos: self.pos,
                msg: "nesting too deep for the model",
            });
        }
        let start = self.pos;
        let mut toks: Vec<Tok> = Vec::new();
        loop {
            let tok_start = self.pos;
            let had_flags = self.flags(true)?;
            if self.at_term(term) {
                if had_flags {
                    // Flags at the very end of a (sub-)expression: outside the documented syntax.
                    self.notes.insert("trailing-flags");
                }
                break;
            }
            let core_start = self.pos;
            let first = toks.is_empty();
            let node = self.token(term, first && !had_flags, had_flags, first)?;
            let id = self.id();
            toks.push(Tok {
                node,
                span: (tok_start, self.pos - tok_start),
                core: (core_start, self.pos - core_start),
                id,
            });
        }
        if toks.is_empty() {
            return Err(SyntaxError {
                pos: self.pos,
                msg: "empty sub-expression",
            });
        }
        self.depth -= 1;
        Ok(Seq {
            toks,
            span: (start, self.pos - start),
        })
    }

    /// After `**` has been consumed: absorbs an optional trailing separator. Returns `trail`.
    fn tree_postfix(&mut self, term: Term) -> Result<bool, SyntaxError> {
        let save = (self.pos, self.ci);
        let had_flags = self.flags(true)?;
        if self.starts("/") {
            if had_flags {
                self.notes.insert("flag-in-tree");
            }
            self.pos += 1;
            return Ok(true);
        }
        // No trailing separator: the tree wildcard must end the (sub-)expression.
        self.pos = save.0;
        self.ci = save.1;
        if self.at_term(term) {
            return Ok(false);
        }
        // Flags then terminator (`a/**(?i)`): trailing flags, undocumented.
        let mut probe = P {
            s: self.s,
            b: self.b,
            pos: self.pos,
            ci: self.ci,
            notes: BTreeSet::new(),
            next_id: 0,
            depth: 0,
        };
        if probe.flags(false).unwrap_or(false) && probe.at_term(term) {
            self.notes.insert("trailing-flags");
            return Ok(false);
        }
        Err(SyntaxError {
            pos: self.pos,
            msg: "tree wildcard not delimited",
        })
    }

    fn token(
        &mut self,
        term: Term,
        at_boe: bool,
        had_flags: bool,
        first: bool,
    ) -> Result<Node, SyntaxError> {
        let c = match self.peek() {
            Some(c) => c,
            None => {
                return Err(SyntaxError {
                    pos: self.pos,
                    msg: "unexpected end",
                })
            },
        };
        match c {
            '/' => {
                // Tree wildcard with absorbed leading separator?
                let save = (self.pos, self.ci);
                self.pos += 1;
                let inner_flags = self.flags(true)?;
                if self.starts("**") {
                    self.pos += 2;
                    if inner_flags {
                        self.notes.insert("flag-in-tree");
                    }
                    match self.tree_postfix(term) {
                        Ok(trail) => return Ok(Node::Tree { lead: true, trail }),
                        Err(e) => return Err(e),
                    }
                }
                self.pos = save.0 + 1;
                self.ci = save.1;
                Ok(Node::Sep)
            },
            '?' => {
                self.pos += 1;
                Ok(Node::One)
            },
            '*' | '$' => {
                if c == '*' && self.starts("**") {
                    if at_boe {
                        self.pos += 2;
                        let trail = self.tree_postfix(term)?;
                        return Ok(Node::Tree { lead: false, trail });
                    }
                    if first && had_flags {
                        // `(?i)**/a`: flags before a leading tree wildcard. The README allows
                        // flags anywhere that does not split a tree wildcard; the property
                        // carves out "inside a tree wildcard". Treated as open (unknown).
                        self.notes.insert("flag-before-tree");
                        self.pos += 2;
                        let trail = self.tree_postfix(term)?;
                        return Ok(Node::Tree { lead: false, trail });
                    }
                    return Err(SyntaxError {
                        pos: self.pos,
                        msg: "tree wildcard not delimited",
                    });
                }
                self.pos += 1;
                // A zero-or-more wildcard may not be followed (after flags) by another one.
                let mut probe = P {
                    s: self.s,
                    b: self.b,
                    pos: self.pos,
                    ci: self.ci,
                    notes: BTreeSet::new(),
                    next_id: 0,
                    depth: 0,
                };
                let _ = probe.flags(false);
                if probe.starts("*") || probe.starts("$") {
                    return Err(SyntaxError {
                        pos: self.pos,
                        msg: "adjacent zero-or-more wildcards (syntax)",
                    });
                }
                Ok(Node::Zom { lazy: c == '$' })
            },
            '[' => self.class(),
            '{' => {
                self.pos += 1;
                let mut branches = Vec::new();
                loop {
                    let branch = self.seq(Term::Alt)?;
                    branches.push(branch);
                    if self.starts(",") {
                        self.pos += 1;
                        continue;
                    }
                    if self.starts("}") {
                        self.pos += 1;
                        break;
                    }
                    return Err(SyntaxError {
                        pos: self.pos,
                        msg: "unterminated alternation",
                    });
                }
                Ok(Node::Alt(branches))
            },
            '<' => {
                self.pos += 1;
                let body = self.seq(Term::Rep)?;
                let (lo, hi) = self.bounds()?;
                if !self.starts(">") {
                    return Err(SyntaxError {
                        pos: self.pos,
                        msg: "unterminated repetition",
                    });
                }
                self.pos += 1;
                Ok(Node::Rep {
                    body: Box::new(body),
                    lo,
                    hi,
                })
            },
            '\\' | _ if c == '\\' || !LITERAL_EXCLUDED.contains(c) => {
                let ci = self.ci;
                let mut text = String::new();
                loop {
                    match self.peek() {
                        Some('\\') => {
                            let mut it = self.s[self.pos + 1..].chars();
                            match it.next() {
                                Some(e) if ESCAPABLE.contains(e) => {
                                    text.push(e);
                                    self.pos += 1 + e.len_utf8();
                                },
                                _ => {
                                    return Err(SyntaxError {
                                        pos: self.pos,
                                        msg: "invalid escape",
                                    })
                                },
                            }
                        },
                        Some(ch) if !LITERAL_EXCLUDED.contains(ch) => {
                            text.push(ch);
                            self.pos += ch.len_utf8();
                        },
                        _ => break,
                    }
                }
                Ok(Node::Lit { text, ci })
            },
            _ => Err(SyntaxError {
                pos: self.pos,
                msg: "unexpected meta-character",
            }),
        }
    }

    fn class_char(&mut self) -> Option<char> {
        match self.peek() {
            Some('\\') => {
                let e = self.s[self.pos + 1..].chars().next()?;
                if e == '[' || e == ']' || e == '-' {
                    self.pos += 2;
                    Some(e)
                }
                else {
                    None
                }
            },
            Some(c) if c != '[' && c != ']' && c != '-' => {
                self.pos += c.len_utf8();
                Some(c)
            },
            _ => None,
        }
    }

    fn class(&mut self) -> Result<Node, SyntaxError> {
        let start = self.pos;
        self.pos += 1;
        let neg = if self.starts("!") {
            self.pos += 1;
            true
        }
        else {
            false
        };
        let mut items = Vec::new();
        loop {
            let save = self.pos;
            let a = match self.class_char() {
                Some(a) => a,
                None => {
                    self.pos = save;
                    break;
                },
            };
            if self.starts("-") {
                let save2 = self.pos;
                self.pos += 1;
                if let Some(b) = self.class_char() {
                    if a > b {
                        self.notes.insert("reversed-range");
                    }
                    items.push((a, b));
                    continue;
                }
                self.pos = save2;
            }
            items.push((a, a));
        }
        if items.is_empty() || !self.starts("]") {
            return Err(SyntaxError {
                pos: start,
                msg: "malformed class",
            });
        }
        self.pos += 1;
        Ok(Node::Class { neg, items })
    }

    fn digits(&mut self) -> Option<&'a str> {
        let start = self.pos;
        while self.pos < self.b.len() && self.b[self.pos].is_ascii_digit() {
            self.pos += 1;
        }
        if self.pos > start {
            Some(&self.s[start..self.pos])
        }
        else {
            None
        }
    }

    fn number(&mut self, text: &str) -> Result<u64, SyntaxError> {
        text.parse::<u64>().map_err(|_| {
            self.notes.insert("bound-overflow");
            SyntaxError {
                pos: self.pos,
                msg: "bound does not fit the machine word",
            }
        })
    }

    fn bounds(&mut self) -> Result<(u64, Option<u64>), SyntaxError> {
        if !self.starts(":") {
            return Ok((0, None));
        }
        self.pos += 1;
        match self.digits() {
            None => Ok((1, None)),
            Some(lo) => {
                let lo = self.number(lo)?;
                if self.starts(",") {
                    self.pos += 1;
                    match self.digits() {
                        None => Ok((lo, None)),
                        Some(hi) => {
                            let hi = self.number(hi)?;
                            Ok((lo, Some(hi)))
                        },
                    }
                }
                else {
                    Ok((lo, Some(lo)))
                }
            },
        }
    }
}

/// Parses an expression. `ci_default` is the platform default (false on Unix).
pub fn parse(expr: &str) -> Result<Ast, SyntaxError> {
    if expr.is_empty() {
        return Ok(Ast {
            expr: String::new(),
            seq: Seq::default(),
            notes: BTreeSet::new(),
            ntoks: 0,
        });
    }
    let mut p = P {
        s: expr,
        b: expr.as_bytes(),
        pos: 0,
        ci: false,
        notes: BTreeSet::new(),
        next_id: 0,
        depth: 0,
    };
    let seq = p.seq(Term::Top)?;
    if p.pos != expr.len() {
        return Err(SyntaxError {
            pos: p.pos,
            msg: "trailing input",
        });
    }
    Ok(Ast {
        expr: expr.to_string(),
        seq,
        notes: p.notes,
        ntoks: p.next_id,
    })
}

/// Like `parse`, but also reports notes gathered before a syntax error (used to classify
/// "undocumented but plausible" inputs that the model's parser rejects).
pub fn parse_with_notes(expr: &str) -> (Result<Ast, SyntaxError>, BTreeSet<&'static str>) {
    if expr.is_empty() {
        return (parse(expr), BTreeSet::new());
    }
    let mut p = P {
        s: expr,
        b: expr.as_bytes(),
        pos: 0,
        ci: false,
        notes: BTreeSet::new(),
        next_id: 0,
        depth: 0,
    };
    let r = p.seq(Term::Top);
    let notes = p.notes.clone();
    match r {
        Ok(seq) if p.pos == expr.len() => (
            Ok(Ast {
                expr: expr.to_string(),
                seq,
                notes: notes.clone(),
                ntoks: p.next_id,
            }),
            notes,
        ),
        Ok(_) => (
            Err(SyntaxError {
                pos: p.pos,
                msg: "trailing input",
            }),
            notes,
        ),
        Err(e) => (Err(e), notes),
    }
}

impl Seq {
    pub fn walk<'s>(&'s self, f: &mut dyn FnMut(&'s Tok, usize)) {
        fn go<'s>(seq: &'s Seq, depth: usize, f: &mut dyn FnMut(&'s Tok, usize)) {
            for t in &seq.toks {
                f(t, depth);
                match &t.node {
                    Node::Alt(bs) => {
                        for b in bs {
                            go(b, depth + 1, f);
                        }
                    },
                    Node::Rep { body, .. } => go(body, depth + 1, f),
                    _ => {},
                }
            }
        }
        go(self, 0, f)
    }
}

impl Tok {
    pub fn is_boundary(&self) -> bool {
        matches!(self.node, Node::Sep | Node::Tree { .. })
    }

    pub fn is_capturing(&self) -> bool {
        !matches!(self.node, Node::Lit { .. } | Node::Sep)
    }
}

impl Ast {
    pub fn has_feature(&self, pred: &dyn Fn(&Tok, usize) -> bool) -> bool {
        let mut found = false;
        self.seq.walk(&mut |t, d| {
            if pred(t, d) {
                found = true;
            }
        });
        found
    }

    pub fn max_depth(&self) -> usize {
        let mut m = 0;
        self.seq.walk(&mut |_, d| {
            if d > m {
                m = d;
            }
        });
        m
    }
}
