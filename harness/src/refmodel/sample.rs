//! Random derivations of the reference AST: candidate paths that match by construction (under
//! the strict reading) or nearly so.

use crate::prng::Rng;
use crate::refmodel::parse::{Ast, Node, Seq};

pub const HOSTILE_CHARS: &[char] = &[
    'a', 'b', 'A', 'B', 'x', 'z', '0', '9', '.', '-', '_', ' ', '\n', '\t', '\u{7f}', 'é', 'É', 'ß',
    'ẞ', 'σ', 'ς', 'Σ', 'ǅ', 'ǆ', 'Ǆ', 'K', 'k', '\u{212A}', '金', '銀', '\u{301}', '*', '?', '[',
    ']', '{', '}', '(', ')', '<', '>', ',', ':', '$', '!', '^', '|', '+', '\\', 'İ', 'ı', 'I', 'i',
];

pub struct Sampler<'a> {
    pub rng: &'a mut Rng,
    /// Characters drawn from the expression itself (literals, class members).
    pub alphabet: Vec<char>,
    /// Loose mode: empty components, stray separators.
    pub loose: bool,
    pub max_rep: u64,
}

fn flip_case(c: char) -> char {
    if c.is_lowercase() {
        let mut it = c.to_uppercase();
        if let (Some(u), None) = (it.next(), it.next()) {
            return u;
        }
    }
    else if c.is_uppercase() {
        let mut it = c.to_lowercase();
        if let (Some(l), None) = (it.next(), it.next()) {
            return l;
        }
    }
    c
}

pub fn alphabet_of(ast: &Ast) -> Vec<char> {
    let mut out: Vec<char> = Vec::new();
    ast.seq.walk(&mut |t, _| match &t.node {
        Node::Lit { text, .. } => {
            for c in text.chars() {
                if !out.contains(&c) {
                    out.push(c);
                }
                let f = flip_case(c);
                if !out.contains(&f) {
                    out.push(f);
                }
            }
        },
        Node::Class { items, .. } => {
            for (a, b) in items {
                for c in [*a, *b, flip_case(*a), flip_case(*b)] {
                    if !out.contains(&c) {
                        out.push(c);
                    }
                }
                if (*a as u32) < (*b as u32) {
                    if let Some(m) = char::from_u32((*a as u32 + *b as u32) / 2) {
                        if !out.contains(&m) {
                            out.push(m);
                        }
                    }
                }
            }
        },
        _ => {},
    });
    out
}

impl<'a> Sampler<'a> {
    fn any_char(&mut self) -> char {
        loop {
            let c = if !self.alphabet.is_empty() && self.rng.chance(1, 2) {
                *self.rng.pick(&self.alphabet)
            }
            else {
                *self.rng.pick(HOSTILE_CHARS)
            };
            if c != '/' {
                return c;
            }
        }
    }

    fn component(&mut self) -> String {
        let n = self.rng.range(1, 3);
        (0..n).map(|_| self.any_char()).collect()
    }

    pub fn seq(&mut self, seq: &Seq, out: &mut String) -> bool {
        for t in &seq.toks {
            match &t.node {
                Node::Lit { text, ci } => {
                    if *ci {
                        for c in text.chars() {
                            if self.rng.chance(1, 2) {
                                out.push(flip_case(c));
                            }
                            else {
                                out.push(c);
                            }
                        }
                    }
                    else {
                        out.push_str(text);
                    }
                },
                Node::Sep => out.push('/'),
                Node::One => out.push(self.any_char()),
                Node::Zom { .. } => {
                    let n = if self.rng.chance(1, 3) {
                        0
                    }
                    else {
                        self.rng.range(0, 3)
                    };
                    for _ in 0..n {
                        out.push(self.any_char());
                    }
                },
                Node::Class { neg, items } => {
                    let mut found = None;
                    for _ in 0..40 {
                        let c = if *neg {
                            self.any_char()
                        }
                        else {
                            let (a, b) = *self.rng.pick(items);
                            if a > b {
                                continue;
                            }
                            let off = self.rng.below((b as u32 - a as u32 + 1).min(64) as usize) as u32;
                            match char::from_u32(a as u32 + off) {
                                Some(c) => c,
                                None => continue,
                            }
                        };
                        if c == '/' {
                            continue;
                        }
                        let inside = items.iter().any(|(a, b)| *a <= c && c <= *b);
                        if inside != *neg {
                            found = Some(c);
                            break;
                        }
                    }
                    match found {
                        Some(c) => out.push(c),
                        None => return false,
                    }
                },
                Node::Tree { lead, trail } => {
                    let k = if self.rng.chance(1, 3) {
                        0
                    }
                    else {
                        self.rng.range(0, 3)
                    };
                    match (lead, trail) {
                        (true, true) => {
                            out.push('/');
                            for _ in 0..k {
                                let c = self.component();
                                out.push_str(&c);
                                out.push('/');
                            }
                            if self.loose && self.rng.chance(1, 4) {
                                out.push('/');
                            }
                        },
                        (false, true) => {
                            if self.loose && self.rng.chance(1, 4) {
                                out.push('/');
                            }
                            for _ in 0..k {
                                let c = self.component();
                                out.push_str(&c);
                                out.push('/');
                            }
                        },
                        (true, false) => {
                            for _ in 0..k {
                                out.push('/');
                                let c = self.component();
                                out.push_str(&c);
                            }
                            if self.loose && self.rng.chance(1, 4) {
                                out.push('/');
                            }
                        },
                        (false, false) => {
                            for n in 0..k {
                                if n > 0 {
                                    out.push('/');
                                }
                                let c = self.component();
                                out.push_str(&c);
                            }
                        },
                    }
                },
                Node::Alt(bs) => {
                    let b = &bs[self.rng.below(bs.len())];
                    if !self.seq(b, out) {
                        return false;
                    }
                },
                Node::Rep { body, lo, hi } => {
                    if *lo > self.max_rep {
                        return false;
                    }
                    let hi_eff = match hi {
                        Some(h) => (*h).min(lo + 2).min(self.max_rep),
                        None => (lo + 2).min(self.max_rep),
                    };
                    let n = self.rng.range(*lo as usize, hi_eff.max(*lo) as usize);
                    for _ in 0..n {
                        if !self.seq(body, out) {
                            return false;
                        }
                        if out.len() > 4096 {
                            return false;
                        }
                    }
                },
            }
        }
        true
    }
}

/// Samples up to `n` derivations (strings) of the expression.
pub fn sample(ast: &Ast, rng: &mut Rng, n: usize) -> Vec<String> {
    let alphabet = alphabet_of(ast);
    let mut out = Vec::new();
    for k in 0..n {
        let mut s = String::new();
        let mut sampler = Sampler {
            rng,
            alphabet: alphabet.clone(),
            loose: k % 3 == 2,
            max_rep: 6,
        };
        if sampler.seq(&ast.seq, &mut s) {
            out.push(s);
        }
    }
    out
}
