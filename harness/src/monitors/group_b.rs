//! Group B: monitors over arbitrary expressions: C05 (totality), C06 (rules), C17 (spans),
//! C18 (escaping).

use serde_json::json;
use std::panic::{catch_unwind, AssertUnwindSafe};

use wax::query::When;
use wax::{CandidatePath, Glob, Program};

use crate::case::{self, guarded, BuildOutcome, PathBudget};
use crate::ctx::{Ctx, ExprStream, Tier};
use crate::driver::take_last_panic;
use crate::gen::expr as gexpr;
use crate::gen::path as gpath;
use crate::monitors::group_a::{depth_str, text_str, when_str};
use crate::monitors::{Group, Meta, Monitor};
use crate::prng::{hash_str, Rng};
use crate::refmodel::parse::{self, Ast, Node};
use crate::refmodel::rules::{self, Verdict};
use crate::report::{clip, Report};

pub struct GroupB {
    id: &'static str,
    stream: ExprStream,
    bombs: Vec<String>,
    extra: usize,
}

impl GroupB {
    pub fn new(id: &str, tier: Tier, seed: u64) -> Self {
        let id = match id {
            "C05" => "C05",
            "C06" => "C06",
            "C17" => "C17",
            _ => "C18",
        };
        let extra = match (id, tier) {
            ("C05", Tier::Quick) => 12000,
            ("C05", Tier::Thorough) => 120000,
            ("C06", Tier::Quick) => 20000,
            ("C06", Tier::Thorough) => 450000,
            ("C17", Tier::Quick) => 15000,
            ("C17", Tier::Thorough) => 300000,
            (_, Tier::Quick) => 12000,
            (_, Tier::Thorough) => 360000,
        };
        GroupB {
            id,
            // C05 runs every case in a guarded subprocess-attributed way and is the slowest monitor: its
            // thorough stream keeps the size it had before the thorough tier was enlarged.
            stream: ExprStream::new(tier, seed, if id == "C05" && tier == Tier::Thorough { 2 } else { 10 }),
            bombs: if id == "C05" { gexpr::bombs() } else { Vec::new() },
            extra,
        }
    }

    fn expr_at(&self, idx: usize, seed: u64) -> String {
        if idx < self.bombs.len() {
            return self.bombs[idx].clone();
        }
        let i = idx - self.bombs.len();
        if i < self.stream.len() {
            return self.stream.at(i);
        }
        let k = i - self.stream.len();
        let mut rng = Rng::derive(seed, "group-b-extra", k as u64);
        match self.id {
            "C05" => match k % 4 {
                0 => gexpr::arbitrary(&mut rng),
                1 => {
                    // Corrupted corpus expression (char level).
                    let base = self.stream.at(rng.below(self.stream.len()));
                    corrupt(&mut rng, &base)
                },
                2 if rng.chance(1, 4) => {
                    // An alternation of a repetition with a zero lower bound and branches of
                    // invariant size around its upper bound (unions of open and closed ranges).
                    let n = rng.range(1, 4);
                    let body = rng.pick_str(&["a", "ab", "a/", "?", "[ab]"]);
                    let other = "b".repeat(rng.range(n.saturating_sub(1), n * 2 + 1));
                    match rng.below(3) {
                        0 => format!("{{<{}:0,{}>,{}}}", body, n, other),
                        1 => format!("{{{},<{}:0,{}>}}x", other, body, n),
                        _ => format!("{{<{}:0,{}>,{},<{}:1,{}>}}", body, n, other, body, n + 1),
                    }
                },
                2 => {
                    // Cartesian-product bomb for the variance algebra.
                    let n = rng.range(1, 14);
                    let unit = *rng.pick(&["{a,b/c}", "{a,b}", "<a/:0,2>", "<a:1,3>", "{a/,b/c/}", "<{a,b/c}:1,2>", "{**/a,b}", "<a/:0,>"]);
                    let mut s = String::new();
                    for _ in 0..n {
                        s.push_str(unit);
                        if rng.chance(1, 3) {
                            s.push_str(rng.pick_str(&["x", "/", "*", ""]));
                        }
                    }
                    s
                },
                _ => {
                    let mut g = gexpr::Gen {
                        rng: &mut rng,
                        cfg: gexpr::Config {
                            obey: 50,
                            max_depth: 4,
                            max_tokens: 8,
                            flags: true,
                            unicode: true,
                        },
                    };
                    g.expr()
                },
            },
            "C06" => {
                if k % 400 == 7 {
                    // A literal at, just above or just below the size limit, alone or next to
                    // siblings of variable size, at varied positions and nesting.
                    let n = *rng.pick(&[0xFFFEusize, 0xFFFF, 0x10000, 0x10001, 0x10010]);
                    let lit = "a".repeat(n);
                    let t = *rng.pick(&["@", "@*", "*/@", "@/**", "doc/@/*.txt", "@{a,bb}", "x/{@*,b}", "<@$:1,2>", "{@,b}", "@/b", "(?i)@*", "**/@", "@?"]);
                    return t.replace('@', &lit);
                }
                if k % 3 == 0 {
                    let mut g = gexpr::Gen {
                        rng: &mut rng,
                        cfg: gexpr::Config {
                            obey: 45,
                            max_depth: 3,
                            max_tokens: 5,
                            flags: k % 9 == 0,
                            unicode: false,
                        },
                    };
                    g.expr()
                }
                else {
                    gexpr::branch_shapes(&mut rng, 1).pop().unwrap_or_default()
                }
            },
            "C17" => {
                let base = self.stream.at(rng.below(self.stream.len()));
                if k % 7 == 3 {
                    // Multi-byte invariant prefix in front of a buildable expression.
                    let pre = *rng.pick(&["日本/", "é/", "naïve/café/", "金/銀/", "données/", "ǅ/x/", "a/日本語/"]);
                    let tail = if base.starts_with('/') || base.is_empty() { "**/*.rs".to_string() } else { base.clone() };
                    return format!("{}{}", pre, tail);
                }
                if k % 7 == 5 {
                    return rule_error_template(&mut rng);
                }
                match k % 3 {
                    0 => multibyte_fault(&mut rng, &base),
                    1 => corrupt(&mut rng, &base),
                    _ => {
                        // Rule errors with multi-byte neighbours.
                        let l = *rng.pick(&["金", "é", "a", "ǅ", "金金", ""]);
                        let r = *rng.pick(&["金", "é", "b", "", "/金"]);
                        let bad = *rng.pick(&["//", "/**//", "**/**", "{/}", "{a,**}", "<*:1,>", "*{a,*b}", "{a/,b}/", "<a/:3,1>", "</:1,>", "{金/,b}/é", "(?i)//", "a(?i)//b", "/**//金", "{a*,b}*", "<金/:0,0>"]);
                        format!("{}{}{}", l, bad, r)
                    },
                }
            },
            _ => text_at(&mut rng, k),
        }
    }
}

/// Expressions that violate one rule, written from templates whose slots are filled
/// independently: `@F` flags (possibly none) directly before a token, `@M` literal text with
/// multi-byte characters at varying offsets, `@L`/`@R` left and right context.
fn rule_error_template(rng: &mut Rng) -> String {
    const TEMPLATES: &[&str] = &[
        "@L@F<@M:2,1>@R", "@L@F<@M:3,2>@R", "@L@F<@M:0>@R", "@L@F<@M:0,0>@R", "@L@F<@M@F/:7,3>@R",
        "a/{b,@F<@M:0,0>}", "{@M,@F<@M:5,1>}@R", "<@F<@M:2,1>:1,2>",
        "@L@F/@F/@R", "@L@M@F/@F/@M@R", "@L@F/**/@F/@R", "@M@F/@F**/@M",
        "@L@M@F*@F*@R", "@L@M@F*@F$@M", "@L{@M@F*,b}@F*@R", "@L@F*{@F*@M,b}@R", "<@M@F*:1,>",
        "@M{@F/@M,b}@R", "@M<@F/@M:1,>", "{@M,@F**}@R", "@M@F**@M", "@M/@F**@M", "@L<@F**:1,>@R",
        "{@M@F/,b}@F/@M", "<@M@F/:2>@F/@R",
    ];
    const FLAGS: &[&str] = &["", "", "(?i)", "(?-i)", "(?i)(?-i)", "(?i-i)"];
    const TEXT: &[&str] = &["金ab", "😀a", "é文", "a金", "金", "ab", "aé", "ǅ", "e\u{301}x", "金金金", "x"];
    const LEFT: &[&str] = &["", "", "金", "é/", "a", "x/(?-i)", "(?i)"];
    const RIGHT: &[&str] = &["", "", "金", "/é", "b", ".金"];
    let t = *rng.pick(TEMPLATES);
    let mut out = String::new();
    let mut it = t.chars().peekable();
    while let Some(c) = it.next() {
        if c == '@' {
            match it.next() {
                Some('F') => out.push_str(rng.pick_str(FLAGS)),
                Some('M') => out.push_str(rng.pick_str(TEXT)),
                Some('L') => out.push_str(rng.pick_str(LEFT)),
                Some('R') => out.push_str(rng.pick_str(RIGHT)),
                Some(o) => {
                    out.push('@');
                    out.push(o);
                },
                None => out.push('@'),
            }
        }
        else {
            out.push(c);
        }
    }
    out
}

fn corrupt(rng: &mut Rng, base: &str) -> String {
    let mut chars: Vec<char> = base.chars().collect();
    let n = rng.range(1, 3);
    for _ in 0..n {
        let c = *rng.pick(&['{', '}', '<', '>', '[', ']', '(', ')', ',', ':', '\\', '*', '?', '$', '/', '-', '!', '金', 'é', '0', '9', 'i', '\n', '\u{0}']);
        match rng.below(4) {
            0 if !chars.is_empty() => {
                let i = rng.below(chars.len());
                chars.remove(i);
            },
            1 if !chars.is_empty() => {
                let i = rng.below(chars.len());
                chars[i] = c;
            },
            2 if !chars.is_empty() => {
                let i = rng.below(chars.len());
                chars.truncate(i);
            },
            _ => {
                let i = rng.below(chars.len() + 1);
                chars.insert(i, c);
            },
        }
    }
    chars.into_iter().collect()
}

/// Places multi-byte characters before, at and after a fault.
fn multibyte_fault(rng: &mut Rng, base: &str) -> String {
    let mb = *rng.pick(&["金", "é", "ǅ", "\u{1F600}", "e\u{301}"]);
    let fault = *rng.pick(&["\\", "[", "{", "<", "(", "(?", "(?x)", "**", "***", "[a", "{a,", "<a:", "<a:1,", "\\a", "]", "}", ">", ")", ",", ":", "[]", "[!]", "[a-]", "\\金"]);
    let chars: Vec<char> = base.chars().collect();
    let i = rng.below(chars.len() + 1);
    let head: String = chars[..i].iter().collect();
    let tail: String = chars[i..].iter().collect();
    match rng.below(5) {
        0 => format!("{}{}{}", head, mb, fault),
        1 => format!("{}{}{}{}", head, fault, mb, tail),
        2 => format!("{}{}{}{}{}", head, mb, fault, mb, tail),
        3 => format!("{}{}", mb, fault),
        _ => format!("{}{}{}", head, fault, mb),
    }
}

const METAS: &[char] = &['?', '*', '$', ':', '<', '>', '(', ')', '[', ']', '{', '}', ','];

fn text_at(rng: &mut Rng, k: usize) -> String {
    let sel = if k % 6 == 5 && k % 60 != 5 { k % 5 } else { k % 6 };
    match sel {
        0 => {
            // Metas interleaved with text and separators.
            let n = rng.range(1, 4);
            let mut s = String::new();
            for _ in 0..n {
                if rng.chance(1, 2) {
                    s.push_str(rng.pick_str(&["a", "b", "x/", "/", "a.b", "金", " ", ".", "..", "-", "!"]));
                }
                s.push(*rng.pick(METAS));
            }
            if rng.chance(1, 2) {
                s.push_str(rng.pick_str(&["a", "/b", ".txt", "金"]));
            }
            s
        },
        1 => rng
            .pick_str(&["(?i)a", "(?-i)", "(?i", "[a-z]", "[!a]", "[a\\-]", "<a:1,2>", "<a>", "{a,b}", "{a}", "**/a", "a/**", "**", "*.txt", "a?b", "$x", "a:b", "a,b", "ingest[01](L).txt", "record[D00,00].txt", "Do You Remember Love?.mp4", "-", "a-b", "[-]", "!", "[!]", "^", "~", "#", "&&", "a|b", "a+b", ".*", "\\d", "(?s).", "a{1,2}"])
            .replace('\\', ""),
        2 => {
            // Random Unicode text.
            let n = rng.range(0, 12);
            let mut s = String::new();
            for _ in 0..n {
                let v = match rng.below(4) {
                    0 => (rng.next_u64() % 0x80) as u32,
                    1 => (rng.next_u64() % 0x800) as u32,
                    2 => (rng.next_u64() % 0x1_0000) as u32,
                    _ => (rng.next_u64() % 0x11_0000) as u32,
                };
                if let Some(c) = char::from_u32(v) {
                    if c != '\\' {
                        s.push(c);
                    }
                }
            }
            s
        },
        3 => {
            // All orders of a few metas.
            let mut m: Vec<char> = METAS.to_vec();
            rng.shuffle(&mut m);
            let n = rng.range(1, 5);
            m[..n].iter().collect()
        },
        4 => {
            let mut s = String::new();
            let n = rng.range(1, 6);
            for _ in 0..n {
                s.push_str(rng.pick_str(&["a", "/", "*", "?", "[", "]", "{", "}", ",", "<", ">", ":", "(", ")", "$", "金", ".", "-", "i", "0"]));
            }
            s
        },
        _ => {
            // Near the size limit.
            let n = *rng.pick(&[1000usize, 30000, 44000, 65000, 65530, 65533, 65534, 65535]);
            let unit = rng.pick_str(&["a", "*", "ab/", "金", "İ", "ΐ", "ǰ", "İİİ(1)/", "ß"]);
            let mut s = String::new();
            while s.len() + unit.len() <= n {
                s.push_str(unit);
            }
            s
        },
    }
}

// ------------------------------------------------------------------------------------------
// C05
// ------------------------------------------------------------------------------------------

fn max_nesting(s: &str) -> usize {
    let mut d = 0usize;
    let mut m = 0usize;
    for c in s.chars() {
        match c {
            '{' | '<' | '[' | '(' => {
                d += 1;
                m = m.max(d);
            },
            '}' | '>' | ']' | ')' => d = d.saturating_sub(1),
            _ => {},
        }
    }
    m
}

fn max_number(s: &str) -> u128 {
    let mut best: u128 = 0;
    let mut cur: Option<u128> = None;
    for c in s.chars() {
        if let Some(d) = c.to_digit(10) {
            cur = Some(cur.unwrap_or(0).saturating_mul(10).saturating_add(d as u128));
        }
        else {
            if let Some(v) = cur.take() {
                best = best.max(v);
            }
        }
    }
    if let Some(v) = cur {
        best = best.max(v);
    }
    best
}

/// Known-finding key for a panic: site (file + message, not line) plus a trigger on the input.
pub fn classify_panic(expr: &str, site: &str, message: &str) -> Option<&'static str> {
    let overflow = message.contains("overflow");
    if overflow && site.contains("/token/variance/") && max_number(expr) >= (1u128 << 31) {
        return Some("bounds-near-word-size-overflow-variance-arithmetic");
    }
    let _ = site;
    None
}

pub fn classify_crash(what: &str, reason: &str) -> Option<&'static str> {
    // Stack exhaustion shows as SIGSEGV (11) or SIGABRT (6).
    if (reason == "signal 11" || reason == "signal 6") && max_nesting(what) >= 200 {
        return Some("deep-nesting-exhausts-the-stack");
    }
    None
}

fn call<T>(rpt: &mut Report, ctx: &Ctx, expr: &str, op: &str, f: impl FnOnce() -> T) -> Option<T> {
    rpt.evaluations += 1;
    let _ = take_last_panic();
    match catch_unwind(AssertUnwindSafe(f)) {
        Ok(v) => Some(v),
        Err(_) => {
            let (site, msg) = take_last_panic().unwrap_or_default();
            let site_file = site.rsplit_once(':').map_or(site.as_str(), |s| s.0).to_string();
            rpt.disagreement(
                &ctx.known,
                &format!("panic-in-{}", op),
                classify_panic(expr, &site_file, &msg),
                json!({"expr": clip(expr), "operation": op, "site": site, "message": msg}),
            );
            rpt.bucket("panics-caught");
            None
        },
    }
}

fn product_of_numbers(s: &str) -> u128 {
    let mut product: u128 = 1;
    let mut cur: Option<u128> = None;
    for c in s.chars().chain(std::iter::once(' ')) {
        if let Some(d) = c.to_digit(10) {
            cur = Some(cur.unwrap_or(0).saturating_mul(10).saturating_add(d as u128));
        }
        else if let Some(v) = cur.take() {
            product = product.saturating_mul(v.max(1));
        }
    }
    product
}

fn looks_oversized(expr: &str) -> bool {
    expr.len() > 2000 || product_of_numbers(expr).saturating_mul(expr.len() as u128) >= 3000 || max_nesting(expr) >= 60
}

/// Combinator constructions that do not depend on an expression (empty and nested empty inputs).
fn c05_combinator_shapes(ctx: &Ctx, rpt: &mut Report) {
    let e = "<combinator shapes>";
    let empty: Vec<&str> = Vec::new();
    let _ = call(rpt, ctx, e, "any([])", || wax::any(empty.clone()).map(|a| (a.is_match(""), a.is_match("a"), when_str(a.is_exhaustive()), depth_str(&a.depth()))).ok());
    let _ = call(rpt, ctx, e, "any([any([])])", || wax::any([wax::any(empty.clone())]).map(|a| (a.is_match(""), when_str(a.has_root()))).ok());
    let _ = call(rpt, ctx, e, "any([any([]), any([a])])", || wax::any([wax::any(empty.clone()), wax::any(["a"])]).map(|a| (a.is_match("a"), text_str(&a.text()))).ok());
    let _ = call(rpt, ctx, e, "any([built any([])])", || {
        let inner = wax::any(empty.clone()).ok()?;
        wax::any([inner]).map(|a| a.is_match("")).ok()
    });
    let _ = call(rpt, ctx, e, "any([\"\"])", || wax::any([""]).map(|a| (a.is_match(""), when_str(a.is_exhaustive()))).ok());
    let _ = call(rpt, ctx, e, "any([**, \"\", a/**])", || wax::any(["**/b", "", "a/**"]).map(|a| when_str(a.is_exhaustive())).ok());
    let _ = call(rpt, ctx, e, "not(any([]))", || {
        use wax::walk::{FileIterator, PathExt};
        std::path::Path::new("/nonexistent-waxmon").walk().not(wax::any(empty.clone())).is_ok()
    });
    let _ = call(rpt, ctx, e, "Glob::empty/tree", || (Glob::empty().is_empty(), Glob::tree().to_string(), Glob::empty().into_owned().is_empty(), Glob::empty().partition().1.is_none()));
    rpt.bucket("combinator-shapes-exercised");
}

fn c05(expr: &str, idx: usize, ctx: &Ctx, rpt: &mut Report) {
    if idx % 257 == 0 {
        c05_combinator_shapes(ctx, rpt);
    }
    let mut rng = Rng::derive(ctx.seed, "C05", idx as u64);
    rpt.bucket(if max_nesting(expr) >= 100 { "input:deep-nesting" } else { "input:shallow" });
    if max_number(expr) >= (1u128 << 32) {
        rpt.bucket("input:bound-beyond-32-bits");
    }
    if expr.len() >= 60000 {
        rpt.bucket("input:near-size-limit");
    }
    let _ = call(rpt, ctx, expr, "escape", || wax::escape(expr).len());
    let built = call(rpt, ctx, expr, "Glob::new", || Glob::new(expr));
    let glob = match built {
        None => return,
        Some(Err(e)) => {
            rpt.bucket("build:err");
            let text = call(rpt, ctx, expr, "BuildError::Display", || e.to_string()).unwrap_or_default();
            let _ = call(rpt, ctx, expr, "BuildError::locations", || {
                e.locations().map(|l| (l.span(), l.to_string())).collect::<Vec<_>>()
            });
            if text.starts_with("failed to compile glob") {
                rpt.bucket("build:compile-error");
                if !looks_oversized(expr) {
                    rpt.disagreement(
                        &ctx.known,
                        "compile-error-for-a-program-that-is-not-oversized",
                        None,
                        json!({"expr": clip(expr), "error": text}),
                    );
                }
            }
            // Other constructors on the same text.
            let _ = call(rpt, ctx, expr, "FromStr", || expr.parse::<Glob<'static>>().is_ok());
            let _ = call(rpt, ctx, expr, "any(text)", || wax::any([expr]).is_ok());
            rpt.sample(json!({"expr": clip(expr), "outcome": text}));
            return;
        },
        Some(Ok(g)) => g,
    };
    rpt.bucket("build:ok");
    rpt.nontrivial.insert(hash_str(expr));
    let _ = call(rpt, ctx, expr, "depth", || depth_str(&glob.depth()));
    let _ = call(rpt, ctx, expr, "text", || text_str(&glob.text()));
    let _ = call(rpt, ctx, expr, "has_root", || when_str(glob.has_root()));
    let _ = call(rpt, ctx, expr, "is_exhaustive", || when_str(glob.is_exhaustive()));
    let _ = call(rpt, ctx, expr, "has_semantic_literals", || glob.has_semantic_literals());
    let _ = call(rpt, ctx, expr, "captures", || glob.captures().map(|c| (c.index(), c.span())).collect::<Vec<_>>());
    let _ = call(rpt, ctx, expr, "Display", || glob.to_string());
    let _ = call(rpt, ctx, expr, "Debug", || format!("{:?}", glob).len());
    let _ = call(rpt, ctx, expr, "is_empty", || glob.is_empty());
    let parts = call(rpt, ctx, expr, "partition", || glob.clone().partition());
    if let Some((_, Some(post))) = &parts {
        let _ = call(rpt, ctx, expr, "postfix queries", || {
            (depth_str(&post.depth()), when_str(post.has_root()), when_str(post.is_exhaustive()), post.to_string(), post.captures().count())
        });
        let _ = call(rpt, ctx, expr, "postfix partition", || post.clone().partition().0);
    }
    let _ = call(rpt, ctx, expr, "partition_or_empty", || glob.clone().partition_or_empty().1.to_string());
    let _ = call(rpt, ctx, expr, "partition_or_tree", || glob.clone().partition_or_tree().1.to_string());
    let owned = call(rpt, ctx, expr, "into_owned", || glob.clone().into_owned());
    if let Some(o) = &owned {
        let _ = call(rpt, ctx, expr, "owned queries", || (depth_str(&o.depth()), text_str(&o.text()), when_str(o.is_exhaustive())));
        let _ = call(rpt, ctx, expr, "owned partition", || o.clone().partition().0);
    }
    let any = call(rpt, ctx, expr, "any(text)", || wax::any([expr, "b/**", "/c"]).ok()).flatten();
    let _ = call(rpt, ctx, expr, "any(compiled)", || wax::any([glob.clone()]).is_ok());
    let _ = call(rpt, ctx, expr, "any(nested)", || wax::any([wax::any([glob.clone()]), wax::any(["a"])]).is_ok());
    if let Some(a) = &any {
        let _ = call(rpt, ctx, expr, "any queries", || (depth_str(&a.depth()), text_str(&a.text()), when_str(a.has_root()), when_str(a.is_exhaustive())));
    }
    let _ = call(rpt, ctx, expr, "walk-constructors", || {
        use wax::walk::{FileIterator, PathExt};
        let p = std::path::Path::new("/nonexistent-waxmon");
        let _ = glob.walk("/nonexistent-waxmon");
        let _ = p.walk().not(glob.clone()).is_ok();
        let _ = p.walk().not(expr).is_ok();
    });
    // Matching.
    let budget = PathBudget {
        model: 4,
        hir: 6,
        mutations: 8,
        generic: true,
    };
    let ast = if expr.len() < 4000 { parse::parse(expr).ok() } else { None };
    let hir = if expr.len() < 4000 {
        crate::refmodel::hir::parse(glob.verif_program_pattern())
    }
    else {
        None
    };
    let (mut paths, _) = case::candidates(ast.as_ref(), hir.as_ref(), &mut rng, &budget);
    paths.push("a".repeat(5000));
    paths.push(std::iter::repeat("a").take(300).collect::<Vec<_>>().join("/"));
    for p in &paths {
        let _ = call(rpt, ctx, expr, "is_match", || glob.is_match(p.as_str()));
        let _ = call(rpt, ctx, expr, "matched", || {
            let cand = CandidatePath::from(p.as_str());
            glob.matched(&cand).map(|m| {
                let o = m.to_owned();
                (0..6).map(|i| (m.get(i).map(|s| s.len()), o.get(i).map(|s| s.len()))).collect::<Vec<_>>()
            })
        });
        if let Some(a) = &any {
            let _ = call(rpt, ctx, expr, "any is_match", || a.is_match(p.as_str()));
        }
    }
    rpt.sample(json!({"expr": clip(expr), "outcome": "built", "paths": paths.len()}));
}

// ------------------------------------------------------------------------------------------
// C06
// ------------------------------------------------------------------------------------------

#[derive(Clone, Debug, PartialEq, Eq)]
enum Outcome {
    Built,
    Parse,
    Rule(String),
    Compile,
    Panic,
}

fn outcome(expr: &str) -> (Outcome, Option<When>) {
    match case::build(expr) {
        BuildOutcome::Built(g) => (Outcome::Built, guarded(|| g.has_root())),
        BuildOutcome::Err(e) => {
            let t = e.to_string();
            if t.starts_with("failed to parse") {
                (Outcome::Parse, None)
            }
            else if t.starts_with("malformed glob expression") {
                (Outcome::Rule(t), None)
            }
            else {
                (Outcome::Compile, None)
            }
        },
        BuildOutcome::Panicked(_) => (Outcome::Panic, None),
    }
}

fn c06(expr: &str, ctx: &Ctx, rpt: &mut Report) {
    let ast = match parse::parse(expr) {
        Ok(a) => a,
        Err(_) => {
            rpt.bucket("model:not-the-dialect");
            return;
        },
    };
    let verdict = rules::judge(&ast);
    let (got, root) = outcome(expr);
    rpt.evaluations += 1;
    match (&verdict, &got) {
        (_, Outcome::Panic) | (_, Outcome::Compile) => {
            rpt.bucket("impl:panic-or-compile-error(C05 judges)");
        },
        (Verdict::DontCare(why), _) => {
            rpt.bucket(&format!("model:dont-care({})", why));
        },
        (Verdict::MustAccept, Outcome::Built) => {
            rpt.bucket("agree:accept");
            if ast.max_depth() >= 1 {
                rpt.bucket("agree:accept-with-branches");
                rpt.nontrivial.insert(hash_str(expr));
            }
            if ast.max_depth() >= 2 {
                rpt.bucket("agree:accept-nested-branches");
            }
        },
        (Verdict::MustReject(_), Outcome::Rule(_)) => {
            rpt.bucket("agree:reject");
            if ast.max_depth() >= 1 {
                rpt.nontrivial.insert(hash_str(expr));
            }
            if ast.max_depth() >= 2 {
                rpt.bucket("agree:reject-nested-branches");
            }
        },
        (Verdict::MustReject(_), Outcome::Parse) => {
            // Rejected earlier than the rules; the verdict (does not build) agrees.
            rpt.bucket("agree:reject(parser)");
        },
        (Verdict::MustAccept, Outcome::Rule(msg)) => {
            rpt.disagreement(
                &ctx.known,
                "rejects-well-formed-expression",
                None,
                json!({"expr": clip(expr), "error": msg}),
            );
        },
        (Verdict::MustAccept, Outcome::Parse) => {
            rpt.disagreement(
                &ctx.known,
                "parser-rejects-documented-syntax",
                None,
                json!({"expr": clip(expr)}),
            );
        },
        (Verdict::MustReject(why), Outcome::Built) => {
            rpt.disagreement(
                &ctx.known,
                "accepts-ill-formed-expression",
                None,
                json!({"expr": clip(expr), "violated_rule": why}),
            );
        },
    }
    if got == Outcome::Built {
        rpt.evaluations += 1;
        if root == Some(When::Sometimes) {
            rpt.disagreement(
                &ctx.known,
                "built-glob-is-sometimes-rooted",
                None,
                json!({"expr": clip(expr)}),
            );
        }
    }
    // Context-freedom: appending an unrelated sibling after a literal must not change the verdict.
    if ast.max_depth() >= 1 && ast.notes.is_empty() && expr.len() < 200 {
        let base = format!("{}x", expr);
        if let Ok(base_ast) = parse::parse(&base) {
            if base_ast.notes.is_empty() {
                let (b, _) = outcome(&base);
                let accept = |o: &Outcome| matches!(o, Outcome::Built);
                if !matches!(b, Outcome::Panic | Outcome::Compile) {
                    for tail in ["{e,f}", "<g:1,>", "/{e,f}", "{e,{f,g}}", "<{e,f}:1,2>"] {
                        let ext = format!("{}{}", base, tail);
                        let (o, _) = outcome(&ext);
                        if matches!(o, Outcome::Panic | Outcome::Compile) {
                            continue;
                        }
                        rpt.evaluations += 1;
                        rpt.bucket("context-freedom-pairs");
                        if accept(&o) != accept(&b) {
                            rpt.disagreement(
                                &ctx.known,
                                "verdict-depends-on-unrelated-sibling",
                                None,
                                json!({"without_sibling": clip(&base), "with_sibling": clip(&ext), "builds_without": accept(&b), "builds_with": accept(&o)}),
                            );
                        }
                    }
                }
            }
        }
    }
    rpt.sample(json!({"expr": clip(expr), "model": format!("{:?}", verdict), "impl": format!("{:?}", got)}));
}

// ------------------------------------------------------------------------------------------
// C17
// ------------------------------------------------------------------------------------------

fn slice_ok(expr: &str, span: (usize, usize)) -> bool {
    expr.get(span.0..)
        .and_then(|s| s.get(..span.1))
        .is_some()
}

pub fn check_capture_spans(expr: &str, glob: &Glob, what: &str, ctx: &Ctx, rpt: &mut Report, flags_before_tree_after_partition: bool) {
    let spans: Vec<(usize, (usize, usize))> = match guarded(|| glob.captures().map(|c| (c.index(), c.span())).collect()) {
        Some(s) => s,
        None => return,
    };
    let key = if flags_before_tree_after_partition {
        Some("flags-before-first-postfix-tree-wildcard-corrupt-postfix")
    }
    else {
        None
    };
    for (_, span) in &spans {
        rpt.evaluations += 1;
        if !slice_ok(expr, *span) {
            rpt.disagreement(
                &ctx.known,
                "capture-span-does-not-index-the-expression",
                key,
                json!({"expr": clip(expr), "span": span, "what": what}),
            );
            return;
        }
    }
    // Exact text of the sub-expression.
    if let Ok(ast) = parse::parse(expr) {
        if ast.notes.is_empty() {
            let toks: Vec<_> = ast.seq.toks.iter().filter(|t| t.is_capturing()).collect();
            if toks.len() == spans.len() {
                for (t, (_, span)) in toks.iter().zip(spans.iter()) {
                    rpt.evaluations += 1;
                    // The implementation's spans include flags written immediately before the
                    // token; both readings of "its sub-expression" are accepted.
                    if *span != t.span && *span != t.core {
                        rpt.disagreement(
                            &ctx.known,
                            "capture-span-is-not-the-text-of-its-sub-expression",
                            key,
                            json!({"expr": clip(expr), "span": span, "expected": [t.span, t.core], "what": what, "reported_text": expr.get(span.0..).and_then(|s| s.get(..span.1))}),
                        );
                        return;
                    }
                }
                if !spans.is_empty() {
                    rpt.bucket("capture-spans-checked-against-reference-parse");
                }
            }
        }
    }
}

/// Partitioning is a step that can be taken again (round 7, C17-H: an offset remembered by the
/// first partition and reset by the second): the postfix is partitioned a second and a third time,
/// as it is and through the owning conversion, and after every step the spans must index the text
/// that the glob then displays.
fn check_spans_after_further_partitions(post: &Glob, route: &str, ctx: &Ctx, rpt: &mut Report, flags_before_tree: bool) {
    for owned_between in [false, true] {
        let mut cur: Glob<'static> = match guarded(|| post.clone().into_owned()) {
            Some(g) => g,
            None => return,
        };
        if !owned_between {
            // Borrowed all the way: partition the borrowed postfix itself first.
            match guarded(|| post.clone().partition()) {
                Some((_, Some(g))) => {
                    let text = g.to_string();
                    check_capture_spans(&text, &g, &format!("{}:partitioned-again", route), ctx, rpt, flags_before_tree);
                    rpt.bucket("postfix-partitioned-again");
                    cur = match guarded(|| g.into_owned()) {
                        Some(g) => g,
                        None => return,
                    };
                },
                _ => continue,
            }
        }
        for step in 0..2 {
            match guarded(|| cur.clone().partition()) {
                Some((_, Some(g))) => {
                    let text = g.to_string();
                    check_capture_spans(
                        &text,
                        &g,
                        &format!("{}:{}partitioned-again(x{})", route, if owned_between { "owned-and-" } else { "" }, step + 2),
                        ctx,
                        rpt,
                        flags_before_tree,
                    );
                    rpt.bucket("postfix-partitioned-again");
                    cur = g;
                },
                _ => break,
            }
        }
    }
}

fn c17(expr: &str, ctx: &Ctx, rpt: &mut Report) {
    match case::build(expr) {
        BuildOutcome::Panicked(_) => rpt.bucket("panics-outside-C05"),
        BuildOutcome::Err(e) => {
            let locs: Vec<(usize, usize)> = guarded(|| e.locations().map(|l| l.span()).collect()).unwrap_or_default();
            let text = e.to_string();
            let kind = if text.starts_with("failed to parse") {
                "parse"
            }
            else if text.starts_with("malformed") {
                "rule"
            }
            else {
                "compile"
            };
            rpt.bucket(&format!("error:{}", kind));
            if !expr.is_ascii() {
                rpt.bucket(&format!("error:{}:non-ascii-expression", kind));
            }
            for span in &locs {
                rpt.evaluations += 1;
                if span.0 + span.1 == expr.len() {
                    rpt.bucket("span-at-end-of-input");
                }
                if !slice_ok(expr, *span) {
                    rpt.disagreement(
                        &ctx.known,
                        "error-span-does-not-index-the-expression",
                        None,
                        json!({"expr": clip(expr), "span": span, "error_kind": kind, "len": expr.len()}),
                    );
                    break;
                }
            }
            if !locs.is_empty() {
                rpt.nontrivial.insert(hash_str(expr));
            }
            rpt.sample(json!({"expr": clip(expr), "error": text, "spans": locs}));
        },
        BuildOutcome::Built(glob) => {
            rpt.bucket("built");
            check_capture_spans(expr, &glob, "glob", ctx, rpt, false);
            if let Some((prefix, Some(post))) = guarded(|| glob.clone().partition()) {
                let post_expr = post.to_string();
                rpt.bucket("partitioned-with-postfix");
                if !prefix.as_os_str().is_empty() {
                    rpt.bucket("partitioned-with-nonempty-prefix");
                }
                let flags_before_tree = parse::parse(expr).map_or(false, |a| {
                    a.seq.toks.iter().any(|t| matches!(t.node, Node::Tree { lead: true, .. }) && t.span.0 != t.core.0)
                });
                check_capture_spans(&post_expr, &post, "postfix", ctx, rpt, flags_before_tree);
                check_spans_after_further_partitions(&post, "postfix", ctx, rpt, flags_before_tree);
                if guarded(|| post.captures().count()).unwrap_or(0) > 0 {
                    rpt.nontrivial.insert(hash_str(expr));
                }
            }
            if guarded(|| glob.captures().count()).unwrap_or(0) > 0 {
                rpt.nontrivial.insert(hash_str(expr));
            }
            // The owning routes: spans of a partitioned owned glob index its own expression text.
            for (route, owned) in [
                ("from_str", guarded(|| expr.parse::<Glob<'static>>().ok()).flatten()),
                ("into_owned", guarded(|| glob.clone().into_owned())),
            ] {
                if let Some(o) = owned {
                    check_capture_spans(expr, &o, route, ctx, rpt, false);
                    if let Some((prefix, Some(post))) = guarded(|| o.partition()) {
                        let post_expr = post.to_string();
                        let flags_before_tree = parse::parse(expr).map_or(false, |a| {
                            a.seq.toks.iter().any(|t| matches!(t.node, Node::Tree { lead: true, .. }) && t.span.0 != t.core.0)
                        });
                        check_capture_spans(&post_expr, &post, route, ctx, rpt, flags_before_tree);
                        check_spans_after_further_partitions(&post, route, ctx, rpt, flags_before_tree);
                        if !prefix.as_os_str().is_empty() {
                            rpt.bucket("owned-glob-partitioned-with-nonempty-prefix");
                            if !prefix.to_string_lossy().is_ascii() {
                                rpt.bucket("owned-glob-partitioned-with-non-ascii-prefix");
                            }
                        }
                    }
                }
            }
        },
    }
}

// ------------------------------------------------------------------------------------------
// C18
// ------------------------------------------------------------------------------------------

fn c18_text(s: &str, idx: usize, ctx: &Ctx, rpt: &mut Report) {
    if s.contains('\\') || s.contains("//") || s.len() >= 0x10000 {
        rpt.bucket("text:out-of-domain");
        return;
    }
    let mut rng = Rng::derive(ctx.seed, "C18", idx as u64);
    let escaped = match guarded(|| wax::escape(s).to_string()) {
        Some(e) => e,
        None => {
            rpt.bucket("panics-outside-C05");
            return;
        },
    };
    rpt.evaluations += 1;
    let has_meta = s.chars().any(|c| parse::ESCAPABLE.contains(c));
    rpt.bucket(if has_meta { "text:with-meta-characters" } else { "text:without-meta-characters" });
    if !has_meta && escaped != s {
        rpt.disagreement(
            &ctx.known,
            "escape-changes-text-without-meta-characters",
            None,
            json!({"text": clip(s), "escaped": clip(&escaped)}),
        );
    }
    let glob = match case::build(&escaped) {
        BuildOutcome::Built(g) => g,
        BuildOutcome::Err(e) => {
            rpt.disagreement(
                &ctx.known,
                "escaped-text-does-not-build",
                None,
                json!({"text": clip(s), "escaped": clip(&escaped), "error": e.to_string()}),
            );
            return;
        },
        BuildOutcome::Panicked(_) => {
            rpt.bucket("panics-outside-C05");
            return;
        },
    };
    rpt.evaluations += 1;
    let text = guarded(|| text_str(&glob.text()));
    if let Some(t) = &text {
        if t.as_deref() != Some(s) {
            rpt.disagreement(
                &ctx.known,
                "escaped-text-is-not-invariant-text",
                None,
                json!({"text": clip(s), "escaped": clip(&escaped), "reported_text": t}),
            );
        }
    }
    rpt.evaluations += 1;
    if guarded(|| glob.is_match(s)) == Some(false) {
        rpt.disagreement(
            &ctx.known,
            "escaped-text-does-not-match-the-text",
            None,
            json!({"text": clip(s), "escaped": clip(&escaped)}),
        );
    }
    // The same text handed over as a native path and as an OS string.
    for (route, m) in [
        ("Path", guarded(|| glob.is_match(std::path::Path::new(s)))),
        ("OsStr", guarded(|| glob.is_match(std::ffi::OsStr::new(s)))),
    ] {
        rpt.evaluations += 1;
        if m == Some(false) {
            rpt.disagreement(
                &ctx.known,
                "escaped-text-does-not-match-the-text",
                None,
                json!({"text": clip(s), "escaped": clip(&escaped), "candidate_given_as": route}),
            );
        }
    }
    let alphabet: Vec<char> = s.chars().take(16).collect();
    let mut others = 0;
    let mut tried: Vec<String> = Vec::new();
    if s.len() < 200 && !s.is_empty() {
        // Spellings that a path library may consider "the same path".
        tried.push(format!("{}/", s));
        tried.push(format!("{}/.", s));
        tried.push(format!("./{}", s));
        if let Some(t) = s.strip_suffix('/') {
            tried.push(t.to_string());
        }
    }
    for _ in 0..16 {
        tried.push(gpath::mutate(&mut rng, s, &alphabet));
    }
    for (a, b) in [('>', '<'), ('<', '>'), ('{', '}'), ('[', ']'), ('(', ')'), ('*', '?'), ('$', '*'), (',', ':')] {
        if s.contains(a) {
            tried.push(s.replace(a, &b.to_string()));
        }
    }
    if s.len() < 200 {
        tried.push(format!("{}x", s));
        tried.push(s.to_uppercase());
    }
    for x in tried {
        if x == s {
            continue;
        }
        rpt.evaluations += 1;
        others += 1;
        if guarded(|| glob.is_match(x.as_str())) == Some(true) {
            rpt.disagreement(
                &ctx.known,
                "escaped-text-matches-another-path",
                None,
                json!({"text": clip(s), "escaped": clip(&escaped), "other": clip(&x)}),
            );
        }
        else if !x.contains("//") && guarded(|| glob.is_match(std::path::Path::new(x.as_str()))) == Some(true) {
            rpt.disagreement(
                &ctx.known,
                "escaped-text-matches-another-path",
                None,
                json!({"text": clip(s), "escaped": clip(&escaped), "other": clip(&x), "candidate_given_as": "Path"}),
            );
        }
    }
    if has_meta && others > 0 {
        rpt.nontrivial.insert(hash_str(s));
    }
    rpt.sample(json!({"text": clip(s), "escaped": clip(&escaped)}));
}

fn literal_behaviour(expr: &str, c: char) -> Option<bool> {
    // Does `expr` behave as the literal text spelled by replacing the probe char? Returns
    // Some(true) if it builds, has invariant text and matches only that text among near misses.
    match case::build(expr) {
        BuildOutcome::Built(g) => {
            let lit = expr.to_string();
            let ok = guarded(|| {
                let t = text_str(&g.text());
                t.as_deref() == Some(lit.as_str())
                    && g.is_match(lit.as_str())
                    && !g.is_match(format!("{}{}", lit, c).as_str())
                    && !g.is_match(lit.replace(c, "").as_str())
                    && !g.is_match(lit.replace(c, if c == '#' { "@" } else { "#" }).as_str())
            });
            ok
        },
        BuildOutcome::Err(_) => Some(false),
        BuildOutcome::Panicked(_) => None,
    }
}

fn c18_char(c: char, ctx: &Ctx, rpt: &mut Report) {
    let meta = wax::is_meta_character(c);
    let contextual = wax::is_contextual_meta_character(c);
    rpt.evaluations += 1;
    let model_meta = parse::ESCAPABLE.contains(c);
    if model_meta {
        rpt.bucket("char:meta");
        if !meta {
            rpt.disagreement(
                &ctx.known,
                "meta-character-not-reported",
                None,
                json!({"char": c.to_string(), "code": c as u32}),
            );
        }
        // Escaped, it must behave as the literal.
        let e = format!("a\\{}b", c);
        let lit = format!("a{}b", c);
        match case::build(&e) {
            BuildOutcome::Built(g) => {
                if guarded(|| g.is_match(lit.as_str()) && text_str(&g.text()).as_deref() == Some(lit.as_str())) == Some(false) {
                    rpt.disagreement(
                        &ctx.known,
                        "escaped-meta-character-is-not-the-literal",
                        None,
                        json!({"char": c.to_string(), "expr": e}),
                    );
                }
            },
            BuildOutcome::Err(err) => {
                rpt.disagreement(
                    &ctx.known,
                    "escaped-meta-character-does-not-build",
                    None,
                    json!({"char": c.to_string(), "expr": e, "error": err.to_string()}),
                );
            },
            BuildOutcome::Panicked(_) => rpt.bucket("panics-outside-C05"),
        }
        rpt.nontrivial.insert(hash_str(&format!("char{}", c as u32)));
        return;
    }
    if c == '/' || c == '\\' {
        return;
    }
    rpt.bucket(if c.is_ascii() { "char:plain-ascii" } else { "char:plain-non-ascii" });
    if meta || (contextual && c != '-') {
        // Reported as a meta-character although the parser treats it as a literal: `escape` would
        // put a backslash in front of it, which the parser rejects.
        let escaped = wax::escape(&c.to_string()).to_string();
        rpt.disagreement(
            &ctx.known,
            "plain-character-reported-as-meta-character",
            None,
            json!({"char": c.to_string(), "code": c as u32, "escaped": escaped}),
        );
        return;
    }
    // The parser must treat it as a literal: alone and embedded.
    for expr in [c.to_string(), format!("a{}b", c)] {
        rpt.evaluations += 1;
        if literal_behaviour(&expr, c) == Some(false) {
            rpt.disagreement(
                &ctx.known,
                "unreported-character-does-not-behave-as-a-literal",
                None,
                json!({"char": c.to_string(), "code": c as u32, "expr": expr}),
            );
        }
    }
    rpt.nontrivial.insert(hash_str(&format!("char{}", c as u32)));
}

// ------------------------------------------------------------------------------------------

const C18_SWEEP: usize = 0x100 + 3000;

impl Monitor for GroupB {
    fn meta(&self) -> Meta {
        match self.id {
            "C05" => Meta {
                id: "C05",
                group: Group::Pure,
                level: "exploration",
                rule: "arbitrary strings (random scalar values, meta-character soup, corrupted corpus, depth bombs to 10000 levels, bound bombs to beyond 2^64, size-limit neighbours, cartesian-product bombs) + corpus + grammar-generated; every public operation on the result is executed under catch_unwind inside sharded worker processes whose exit status is observed (stack overflow, abort); profile has overflow-checks and debug-assertions on. distinct_nontrivial = distinct expressions that built and had every operation exercised.",
                assumptions: &["bounded-progress restatement of termination: a per-case wall-clock watchdog makes a case inconclusive", "'oversized program' decided by a syntactic estimate (length, bounds, nesting)"],
                floors: &["build:ok", "build:err", "input:deep-nesting", "input:bound-beyond-32-bits", "input:near-size-limit", "build:compile-error"],
            },
            "C06" => Meta {
                id: "C06",
                group: Group::Pure,
                level: "exploration",
                rule: "syntactically valid expressions (syntax-only generator, two- and three-level branch shapes over a small alphabet in left/right contexts, corpus, sweep); Ok/Err class of Glob::new is compared with an independent three-valued restatement of the rule sentence (first/last leaf kinds over all branch choices and iteration counts >= 1, lexical neighbours); context-freedom is also checked without the model by appending unrelated siblings. distinct_nontrivial = distinct expressions with at least one branch on which model and implementation agreed with a definite verdict.",
                assumptions: &["reference parser and rule restatement (harness/src/refmodel/rules.rs); open corners answer don't-care"],
                floors: &["agree:accept", "agree:reject", "agree:accept-nested-branches", "agree:reject-nested-branches", "context-freedom-pairs"],
            },
            "C17" => Meta {
                id: "C17",
                group: Group::Pure,
                level: "exploration",
                rule: "failing expressions with multi-byte characters before / at / after the fault and faults at end of input, rule errors with multi-byte neighbours, corrupted corpus; every span from BuildError::locations() and Glob::captures() (also after partition, against the postfix text) is checked with str::get (never by slicing) and capture spans are compared with the reference parse. distinct_nontrivial = distinct expressions with at least one span checked.",
                assumptions: &["a capture's 'sub-expression' may include flags written immediately before it (both readings accepted)"],
                floors: &["error:parse", "error:rule", "error:parse:non-ascii-expression", "error:rule:non-ascii-expression", "span-at-end-of-input", "capture-spans-checked-against-reference-parse", "partitioned-with-nonempty-prefix"],
            },
            _ => Meta {
                id: "C18",
                group: Group::Pure,
                level: "exploration",
                rule: "texts (orders and subsets of the meta-characters interleaved with text and separators, flag-, class- and repetition-like strings, random Unicode, near-limit lengths): escape -> Glob::new -> text()/is_match on the text and on mutations; plus a character sweep (all of U+0000..U+00FF and 3000 sampled scalar values): reported meta-characters vs. how the parser treats the character alone and embedded. distinct_nontrivial = distinct texts with a meta-character and at least one other path evaluated + distinct characters swept.",
                assumptions: &["the set of meta-characters of the documented dialect (harness/src/refmodel/parse.rs)"],
                floors: &["text:with-meta-characters", "text:without-meta-characters", "char:meta", "char:plain-ascii", "char:plain-non-ascii"],
            },
        }
    }

    fn total_cases(&self, _tier: Tier, _seed: u64) -> usize {
        let base = self.bombs.len() + self.stream.len() + self.extra;
        if self.id == "C18" {
            base + C18_SWEEP
        }
        else {
            base
        }
    }

    fn run_case(&mut self, idx: usize, ctx: &Ctx, rpt: &mut Report) {
        if self.id == "C18" {
            let base = self.bombs.len() + self.stream.len() + self.extra;
            if idx >= base {
                let k = idx - base;
                let c = if k < 0x100 {
                    char::from_u32(k as u32)
                }
                else {
                    let mut rng = Rng::derive(ctx.seed, "C18-char", k as u64);
                    char::from_u32((rng.next_u64() % 0x11_0000) as u32)
                };
                if let Some(c) = c {
                    ctx.begin(idx, &format!("char U+{:04X}", c as u32));
                    c18_char(c, ctx, rpt);
                }
                return;
            }
        }
        let expr = self.expr_at(idx, ctx.seed);
        ctx.begin(idx, &expr);
        match self.id {
            "C05" => c05(&expr, idx, ctx, rpt),
            "C06" => c06(&expr, ctx, rpt),
            "C17" => c17(&expr, ctx, rpt),
            _ => c18_text(&expr, idx, ctx, rpt),
        }
    }
}

#[allow(dead_code)]
fn _unused(_: &Ast) {}
