//! Group A: monitors over (built glob × candidate path): C01 C04 C07 C08 C09 C10 C11 C12 C19.

use serde_json::{json, Value};
use std::collections::BTreeSet;
use std::path::Path;

use wax::query::{Boundedness, DepthVariance, TextVariance, When};
use wax::{Any, CandidatePath, Glob, Program};
use wax::walk::{FileIterator, Not, PathExt, WalkTree};

use crate::case::{self, guarded, Case, PathBudget};
use crate::ctx::{Ctx, ExprStream, Tier};
use crate::gen::path as gpath;
use crate::monitors::{Group, Meta, Monitor};
use crate::prng::{hash_str, Rng};
use crate::refmodel::hir as rhir;
use crate::refmodel::matcher::{chars, Matcher, Mode, ModelPattern, Quirks, Tri};
use crate::refmodel::parse::{self, Ast, Node, Seq, Tok};
use crate::refmodel::transform;
use crate::report::{clip, Report};

pub struct GroupA {
    id: &'static str,
    stream: ExprStream,
    budget: PathBudget,
}

fn static_id(id: &str) -> &'static str {
    match id {
        "C01" => "C01",
        "C04" => "C04",
        "C07" => "C07",
        "C08" => "C08",
        "C09" => "C09",
        "C10" => "C10",
        "C11" => "C11",
        "C12" => "C12",
        _ => "C19",
    }
}

impl GroupA {
    pub fn new(id: &str, tier: Tier, seed: u64) -> Self {
        let scale = match id {
            "C07" | "C19" => 6,
            "C04" | "C08" => 8,
            _ => 10,
        };
        GroupA {
            id: static_id(id),
            stream: ExprStream::new(tier, seed, scale),
            budget: match tier {
                Tier::Quick => PathBudget::quick(),
                Tier::Thorough => PathBudget::thorough(),
            },
        }
    }
}

pub fn when_str(w: When) -> &'static str {
    match w {
        When::Always => "always",
        When::Sometimes => "sometimes",
        When::Never => "never",
    }
}

pub fn depth_bounds(d: &DepthVariance) -> (usize, Option<usize>) {
    match d {
        DepthVariance::Invariant(n) => (*n, Some(*n)),
        DepthVariance::Variant(Boundedness::Unbounded) => (0, None),
        DepthVariance::Variant(Boundedness::Bounded(r)) => {
            let lo = match r.lower() {
                Boundedness::Bounded(n) => n.get(),
                Boundedness::Unbounded => 0,
            };
            let hi = match r.upper() {
                Boundedness::Bounded(n) => Some(n.get()),
                Boundedness::Unbounded => None,
            };
            (lo, hi)
        },
    }
}

pub fn depth_str(d: &DepthVariance) -> String {
    let (lo, hi) = depth_bounds(d);
    match (d, hi) {
        (DepthVariance::Invariant(n), _) => format!("invariant({})", n),
        (_, Some(h)) => format!("[{},{}]", lo, h),
        (_, None) => format!("[{},inf)", lo),
    }
}

pub fn text_str(t: &TextVariance<'_>) -> Option<String> {
    match t {
        TextVariance::Invariant(s) => Some(s.to_string()),
        TextVariance::Variant(()) => None,
    }
}

fn features(ast: &Ast, rpt: &mut Report) {
    let mut prev_lit_ci: Option<bool> = None;
    ast.seq.walk(&mut |t, d| {
        match &t.node {
            Node::Lit { ci, .. } => {
                prev_lit_ci = Some(*ci);
                if *ci {
                    rpt.bucket("feat:ci-literal");
                }
            },
            Node::Class { neg, items } => {
                if prev_lit_ci == Some(true) {
                    rpt.bucket("feat:class-after-ci-literal");
                }
                if *neg {
                    rpt.bucket("feat:negated-class");
                }
                if items.iter().any(|(a, b)| *a <= '/' && '/' <= *b) {
                    rpt.bucket("feat:class-listing-separator");
                }
            },
            Node::Tree { lead, trail } => {
                rpt.bucket(&format!("feat:tree-depth{}", d.min(3)));
                rpt.bucket(match (lead, trail) {
                    (true, true) => "feat:tree-middle",
                    (false, true) => "feat:tree-leading",
                    (true, false) => "feat:tree-trailing",
                    (false, false) => "feat:tree-only",
                });
            },
            Node::Alt(_) => rpt.bucket("feat:alternation"),
            Node::Rep { .. } => rpt.bucket("feat:repetition"),
            Node::Zom { .. } => rpt.bucket("feat:zom"),
            Node::One => rpt.bucket("feat:one"),
            Node::Sep => {},
        }
    });
}

fn has_nonliteral(ast: &Ast) -> bool {
    ast.has_feature(&|t, _| !matches!(t.node, Node::Lit { .. } | Node::Sep))
}

// ------------------------------------------------------------------------------------------
// C01
// ------------------------------------------------------------------------------------------

const C01_QUIRKS: &[(&str, Quirks)] = &[
    (
        "rooted-leading-tree-matches-partial-component",
        Quirks {
            rooted_leading_tree_is_dotstar: true,
            rep_edge_tree_any_form: false,
        },
    ),
    (
        "tree-wildcard-at-edge-of-repetition-body-encoded-as-expression-edge",
        Quirks {
            rooted_leading_tree_is_dotstar: false,
            rep_edge_tree_any_form: true,
        },
    ),
    (
        "rooted-leading-tree-matches-partial-component",
        Quirks {
            rooted_leading_tree_is_dotstar: true,
            rep_edge_tree_any_form: true,
        },
    ),
];

fn c01(case: &Case, ctx: &Ctx, rpt: &mut Report) {
    let (ast, model) = match (&case.ast, &case.model) {
        (Some(a), Some(m)) => (a, m),
        _ => {
            // The implementation built something the reference parser does not recognise as the
            // dialect at all.
            rpt.inconclusive(
                "model-parser-rejects-built-expression",
                json!({"expr": clip(case.expr)}),
            );
            return;
        },
    };
    if !ast.notes.is_empty() {
        rpt.inconclusive(
            "undocumented-syntax",
            json!({"expr": clip(case.expr), "notes": ast.notes.iter().collect::<Vec<_>>()}),
        );
        return;
    }
    features(ast, rpt);
    let mut accepted = 0usize;
    let mut rejected = 0usize;
    for p in &case.paths {
        let got = match case.is_match(p) {
            Some(b) => b,
            None => {
                rpt.bucket("panics-outside-C05");
                continue;
            },
        };
        let pc = chars(p);
        rpt.evaluations += 1;
        if p.contains('\n') {
            rpt.bucket("path:newline");
        }
        if p.is_empty() {
            rpt.bucket("path:empty");
        }
        if p.starts_with('/') {
            rpt.bucket("path:rooted");
        }
        if p.ends_with('/') {
            rpt.bucket("path:trailing-separator");
        }
        if !p.is_ascii() {
            rpt.bucket("path:non-ascii");
        }
        if got {
            accepted += 1;
            match model.matches(&pc, Mode::May, Quirks::default()) {
                Tri::Yes => {},
                Tri::Unknown => rpt.inconclusive("model-budget", json!({"expr": clip(case.expr)})),
                Tri::No => {
                    // Attribute to a listed deviation only if one named quirk explains it.
                    let mut key = None;
                    let mut undecided = false;
                    for (name, q) in C01_QUIRKS {
                        match model.matches(&pc, Mode::May, *q) {
                            Tri::Yes => {
                                key = Some(*name);
                                break;
                            },
                            Tri::Unknown => undecided = true,
                            Tri::No => {},
                        }
                    }
                    if key.is_none() && undecided {
                        // The path is outside the documented language, but whether a listed
                        // deviation explains it could not be decided within the model's budget
                        // (long paths under nested repetitions): neither a new violation nor a
                        // known one.
                        rpt.inconclusive("attribution-to-listed-deviation-exceeds-model-budget", json!({"expr": clip(case.expr), "path": clip(p)}));
                        continue;
                    }
                    rpt.disagreement(
                        &ctx.known,
                        "accepts-path-outside-documented-language",
                        key,
                        json!({"expr": clip(case.expr), "path": clip(p), "impl": true, "regex": clip(&case.pattern)}),
                    );
                },
            }
        }
        else {
            rejected += 1;
            match model.matches(&pc, Mode::Must, Quirks::default()) {
                Tri::No => {},
                Tri::Unknown => rpt.inconclusive("model-budget", json!({"expr": clip(case.expr)})),
                Tri::Yes => {
                    rpt.disagreement(
                        &ctx.known,
                        "rejects-path-inside-documented-language",
                        None,
                        json!({"expr": clip(case.expr), "path": clip(p), "impl": false, "regex": clip(&case.pattern)}),
                    );
                },
            }
        }
    }
    if has_nonliteral(ast) && accepted > 0 && rejected > 0 {
        rpt.nontrivial.insert(hash_str(case.expr));
        rpt.bucket("nontrivial-expressions");
    }
    if accepted > 0 {
        rpt.bucket("expressions-with-accepted-path");
    }
    // The documented semantics do not depend on the route by which the pattern is given or the
    // candidate is handed over: a combinator of this one pattern (given as text and as the
    // compiled glob — both rebuild and recompile the token tree) and a native `Path` candidate
    // must decide every path as the glob decided it above.
    let any_text = guarded(|| wax::any([case.expr]).ok()).flatten();
    let any_glob = guarded(|| wax::any([case.glob.clone()]).ok()).flatten();
    for p in &case.paths {
        let got = match case.is_match(p) {
            Some(b) => b,
            None => continue,
        };
        for (route, other) in [
            ("any([text])", any_text.as_ref().and_then(|a| guarded(|| a.is_match(p.as_str())))),
            ("any([compiled])", any_glob.as_ref().and_then(|a| guarded(|| a.is_match(p.as_str())))),
            ("candidate-as-Path", guarded(|| case.glob.is_match(Path::new(p.as_str())))),
        ] {
            if let Some(o) = other {
                rpt.evaluations += 1;
                if o != got {
                    rpt.disagreement(
                        &ctx.known,
                        "route-changes-what-matches",
                        None,
                        json!({"expr": clip(case.expr), "path": clip(p), "glob_matches": got, "route": route, "route_matches": o}),
                    );
                }
            }
        }
    }
    rpt.bucket("routes-compared(any-of-text,any-of-compiled,Path-candidate)");
    rpt.sample(json!({"expr": clip(case.expr), "regex": clip(&case.pattern), "paths_tried": case.paths.len(), "accepted": accepted, "rejected": rejected, "example_path": case.paths.first()}));
}

// ------------------------------------------------------------------------------------------
// C04
// ------------------------------------------------------------------------------------------

fn byte_to_char_index(p: &str, b: usize) -> usize {
    p[..b].chars().count()
}

/// Is the tree capture `[cs, ce)` (char offsets) a run of complete components of `p`?
fn complete_components(p: &[char], cs: usize, ce: usize) -> bool {
    if cs == ce {
        return true;
    }
    let n = p.len();
    let left = cs == 0 || p[cs - 1] == '/' || p[cs] == '/';
    let right = ce == n || p[ce] == '/' || p[ce - 1] == '/';
    left && right
}

/// Checks that a segmentation of `p` by the top-level tokens exists that is consistent with the
/// reported captures. Returns `Tri::Unknown` on budget exhaustion.
fn segmentation_ok(
    ast: &Ast,
    model: &ModelPattern,
    p: &[char],
    caps: &[Option<(usize, usize)>],
    quirks: Quirks,
) -> Tri {
    let info = &model.asts[0].1;
    let mut m = Matcher::new(p, Mode::May, quirks, info);
    let mut cur: BTreeSet<usize> = BTreeSet::new();
    cur.insert(0);
    let mut ci = 0usize;
    for tok in &ast.seq.toks {
        let cap = if tok.is_capturing() {
            let c = caps.get(ci).cloned();
            ci += 1;
            match c {
                Some(c) => Some(c),
                None => return Tri::No, // fewer captures than capturing tokens
            }
        }
        else {
            None
        };
        let mut next = BTreeSet::new();
        for s in &cur {
            let ends = match m.tok_ends(tok, *s) {
                Ok(e) => e,
                Err(_) => return Tri::Unknown,
            };
            for e in ends.iter() {
                let ok = match (&tok.node, cap) {
                    (_, None) => true, // not a capturing token
                    (Node::Tree { lead, trail }, Some(c)) => {
                        let t = &p[*s..*e];
                        let mut any = false;
                        let a_opts: &[usize] = if *lead && !t.is_empty() && t[0] == '/' { &[0, 1] } else { &[0] };
                        for a in a_opts {
                            let b_opts: &[usize] = if *trail && t.len() > *a && *t.last().unwrap() == '/' {
                                &[0, 1]
                            }
                            else {
                                &[0]
                            };
                            for b in b_opts {
                                let (xs, xe) = (*s + *a, *e - *b);
                                match c {
                                    None => {
                                        if xs == xe {
                                            any = true;
                                        }
                                    },
                                    Some((cs, ce)) => {
                                        if (cs == xs && ce == xe) || (cs == ce && xs == xe) {
                                            any = true;
                                        }
                                    },
                                }
                            }
                        }
                        any
                    },
                    (_, Some(None)) => false, // non-tree capturing tokens always participate
                    (_, Some(Some((cs, ce)))) => cs == *s && ce == *e,
                };
                if ok {
                    next.insert(*e);
                }
            }
        }
        cur = next;
        if cur.is_empty() {
            return Tri::No;
        }
    }
    if cur.contains(&p.len()) {
        Tri::Yes
    }
    else {
        Tri::No
    }
}

fn c04(case: &Case, ctx: &Ctx, rpt: &mut Report) {
    let documented = case.ast.as_ref().map_or(false, |a| a.notes.is_empty());
    let tokens: Vec<(usize, (usize, usize))> = match guarded(|| {
        case.glob
            .captures()
            .map(|c| (c.index(), c.span()))
            .collect::<Vec<_>>()
    }) {
        Some(t) => t,
        None => {
            rpt.bucket("panics-outside-C05");
            return;
        },
    };
    let n = tokens.len();
    // Count and order against the reference parse.
    if let (true, Some(ast)) = (documented, &case.ast) {
        let expected: Vec<&Tok> = ast.seq.toks.iter().filter(|t| t.is_capturing()).collect();
        rpt.evaluations += 1;
        if expected.len() != n {
            rpt.disagreement(
                &ctx.known,
                "capturing-token-count-differs-from-expression",
                None,
                json!({"expr": clip(case.expr), "reported": n, "expected": expected.len()}),
            );
        }
        for (k, (index, span)) in tokens.iter().enumerate() {
            if *index != k + 1 {
                rpt.disagreement(
                    &ctx.known,
                    "capture-indices-not-sequential",
                    None,
                    json!({"expr": clip(case.expr), "indices": tokens.iter().map(|t| t.0).collect::<Vec<_>>()}),
                );
                break;
            }
            if k > 0 && span.0 < tokens[k - 1].1 .0 + tokens[k - 1].1 .1 {
                rpt.disagreement(
                    &ctx.known,
                    "capture-spans-not-in-expression-order",
                    None,
                    json!({"expr": clip(case.expr), "spans": tokens.iter().map(|t| t.1).collect::<Vec<_>>()}),
                );
                break;
            }
        }
    }
    // A combinator has matched text exactly when it matches, and its capture zero is the whole
    // path too (round 9: combinators x captures). Built from the text, from the compiled glob and
    // next to a second pattern.
    for (route, any) in [
        ("any([text])", guarded(|| wax::any([case.expr]).ok()).flatten()),
        ("any([compiled])", guarded(|| wax::any([case.glob.clone()]).ok()).flatten()),
        ("any([text, \"zz/**\"])", guarded(|| wax::any([case.expr, "zz/**"]).ok()).flatten()),
    ] {
        let any = match any {
            Some(a) => a,
            None => continue,
        };
        for p in case.paths.iter().take(24) {
            let cand = CandidatePath::from(p.as_str());
            if let Some((is, mt)) = guarded(|| (any.is_match(p.as_str()), any.matched(&cand).map(|m| (m.get(0).map(String::from), m.complete().to_string())))) {
                rpt.evaluations += 1;
                rpt.bucket("combinator-matched-text-checked");
                if mt.is_some() != is {
                    rpt.disagreement(
                        &ctx.known,
                        "matched-text-presence-differs-from-is-match",
                        None,
                        json!({"expr": clip(case.expr), "route": route, "path": clip(p), "is_match": is, "matched_is_some": mt.is_some()}),
                    );
                    break;
                }
                if let Some((g0, complete)) = mt {
                    if g0.as_deref() != Some(p.as_str()) || complete != *p {
                        rpt.disagreement(
                            &ctx.known,
                            "capture-zero-is-not-the-whole-path",
                            None,
                            json!({"expr": clip(case.expr), "route": route, "path": clip(p), "get0": g0, "complete": complete}),
                        );
                        break;
                    }
                }
            }
        }
    }
    let mut matched_paths = 0usize;
    let mut saw_nonparticipating = false;
    for p in &case.paths {
        let cand = CandidatePath::from(p.as_str());
        let got = match case.is_match(p) {
            Some(b) => b,
            None => continue,
        };
        let mt = match guarded(|| case.glob.matched(&cand)) {
            Some(m) => m,
            None => {
                rpt.bucket("panics-outside-C05");
                continue;
            },
        };
        rpt.evaluations += 1;
        if mt.is_some() != got {
            rpt.disagreement(
                &ctx.known,
                "matched-text-presence-differs-from-is-match",
                None,
                json!({"expr": clip(case.expr), "path": clip(p), "is_match": got, "matched_is_some": mt.is_some()}),
            );
            continue;
        }
        let mt = match mt {
            Some(m) => m,
            None => continue,
        };
        matched_paths += 1;
        if mt.get(0) != Some(p.as_str()) || mt.complete() != p.as_str() {
            rpt.disagreement(
                &ctx.known,
                "capture-zero-is-not-the-whole-path",
                None,
                json!({"expr": clip(case.expr), "path": clip(p), "get0": mt.get(0)}),
            );
        }
        // Out-of-range indices.
        for i in (n + 1)..(n + 4) {
            if let Some(t) = mt.get(i) {
                rpt.disagreement(
                    &ctx.known,
                    "capture-beyond-reported-count",
                    None,
                    json!({"expr": clip(case.expr), "path": clip(p), "index": i, "text": t, "reported_count": n}),
                );
                break;
            }
        }
        // Offsets of the borrowed captures (they are slices of `p`).
        let base = p.as_ptr() as usize;
        let pc = chars(p);
        let mut caps: Vec<Option<(usize, usize)>> = Vec::new();
        let mut prev_end = 0usize;
        let mut order_ok = true;
        for i in 1..=n {
            match mt.get(i) {
                None => {
                    caps.push(None);
                    saw_nonparticipating = true;
                },
                Some(t) => {
                    let off = (t.as_ptr() as usize).wrapping_sub(base);
                    if off > p.len() || off + t.len() > p.len() || &p[off..off + t.len()] != t {
                        rpt.disagreement(
                            &ctx.known,
                            "capture-is-not-a-substring-of-the-path",
                            None,
                            json!({"expr": clip(case.expr), "path": clip(p), "index": i, "text": t}),
                        );
                        order_ok = false;
                        caps.push(None);
                        continue;
                    }
                    if off < prev_end {
                        order_ok = false;
                    }
                    prev_end = off + t.len();
                    caps.push(Some((byte_to_char_index(p, off), byte_to_char_index(p, off + t.len()))));
                },
            }
        }
        if !order_ok {
            rpt.disagreement(
                &ctx.known,
                "captures-overlap-or-out-of-path-order",
                None,
                json!({"expr": clip(case.expr), "path": clip(p), "captures": (1..=n).map(|i| mt.get(i)).collect::<Vec<_>>()}),
            );
            continue;
        }
        // Owned views.
        let owned_a = mt.to_owned();
        for i in 0..(n + 3) {
            if owned_a.get(i) != mt.get(i) {
                rpt.disagreement(
                    &ctx.known,
                    "owned-matched-text-differs-from-borrowed",
                    None,
                    json!({"expr": clip(case.expr), "path": clip(p), "index": i, "borrowed": mt.get(i), "owned": owned_a.get(i), "route": "to_owned"}),
                );
                break;
            }
        }
        // Per-token checks against the reference parse.
        if let (true, Some(ast), Some(model)) = (documented, &case.ast, &case.model) {
            let captoks: Vec<&Tok> = ast.seq.toks.iter().filter(|t| t.is_capturing()).collect();
            if captoks.len() == n {
                let mut partial_tree = false;
                for (tok, cap) in captoks.iter().zip(caps.iter()) {
                    if let Some((cs, ce)) = cap {
                        match tok.node {
                            Node::One | Node::Zom { .. } | Node::Class { .. } => {
                                if pc[*cs..*ce].contains(&'/') {
                                    rpt.disagreement(
                                        &ctx.known,
                                        "component-pattern-captured-a-separator",
                                        None,
                                        json!({"expr": clip(case.expr), "path": clip(p), "capture": pc[*cs..*ce].iter().collect::<String>()}),
                                    );
                                }
                            },
                            Node::Tree { .. } => {
                                if !complete_components(&pc, *cs, *ce) {
                                    partial_tree = true;
                                }
                            },
                            _ => {},
                        }
                    }
                }
                // Every participating capture of a sub-expression without tree wildcards is text
                // that this sub-expression matches on its own, under the flags in force (they are
                // recorded on its literals) — judged by the reference model on the captured text
                // alone, and therefore also for paths that the model places outside the
                // documented language as a whole (round 9, C04-J: leaving those to C01 hid a
                // class in a branch that had become case-insensitive).
                for (tok, cap) in captoks.iter().zip(caps.iter()) {
                    if let Some((cs, ce)) = cap {
                        fn contains_tree(t: &Tok) -> bool {
                            match &t.node {
                                Node::Tree { .. } => true,
                                Node::Alt(bs) => bs.iter().any(|b| b.toks.iter().any(contains_tree)),
                                Node::Rep { body, .. } => body.toks.iter().any(contains_tree),
                                _ => false,
                            }
                        }
                        if contains_tree(tok) {
                            continue;
                        }
                        let text = &pc[*cs..*ce];
                        let info = &model.asts[0].1;
                        let mut m = Matcher::new(text, Mode::May, Quirks::default(), info);
                        if let Ok(ends) = m.tok_ends(tok, 0) {
                            rpt.evaluations += 1;
                            rpt.bucket("capture-checked-against-its-own-sub-expression");
                            if !ends.contains(&text.len()) {
                                rpt.disagreement(
                                    &ctx.known,
                                    "capture-is-not-matched-by-its-own-sub-expression",
                                    None,
                                    json!({"expr": clip(case.expr), "path": clip(p), "capture": text.iter().collect::<String>(), "sub_expression": case.expr.get(tok.span.0..tok.span.0 + tok.span.1)}),
                                );
                                break;
                            }
                        }
                    }
                }
                let rooted_quirk = Quirks {
                    rooted_leading_tree_is_dotstar: true,
                    rep_edge_tree_any_form: false,
                };
                if partial_tree {
                    // Known today only for a rooted leading tree wildcard.
                    let first_is_rooted_tree = matches!(
                        ast.seq.toks.first().map(|t| &t.node),
                        Some(Node::Tree { lead: true, trail: true })
                    );
                    // (With a repetition-edge tree wildcard elsewhere in the expression the rest of
                    // the segmentation needs that listed quirk as well, as in the branch below.)
                    // A quirked segmentation that runs out of the model's budget decides nothing:
                    // the cause of the disagreement is then undecided (inconclusive), neither a
                    // listed finding nor a new violation.
                    let mut undecided = false;
                    let mut seg = |q: Quirks| {
                        let r = segmentation_ok(ast, model, &pc, &caps, q);
                        if r == Tri::Unknown {
                            undecided = true;
                        }
                        r == Tri::Yes
                    };
                    let key = if first_is_rooted_tree
                        && caps.first().map_or(false, |c| c.map_or(false, |(cs, _)| cs == 0))
                        && (seg(rooted_quirk)
                            || seg(Quirks {
                                rooted_leading_tree_is_dotstar: true,
                                rep_edge_tree_any_form: true,
                            }))
                    {
                        Some("rooted-leading-tree-captures-partial-component")
                    }
                    else {
                        None
                    };
                    if key.is_none() && undecided {
                        rpt.inconclusive(
                            "attribution-to-listed-deviation-exceeds-model-budget",
                            json!({"expr": clip(case.expr), "path": clip(p)}),
                        );
                    }
                    else {
                        rpt.disagreement(
                            &ctx.known,
                            "tree-capture-is-not-a-run-of-complete-components",
                            key,
                            json!({"expr": clip(case.expr), "path": clip(p), "captures": (1..=n).map(|i| mt.get(i)).collect::<Vec<_>>()}),
                        );
                    }
                }
                else {
                    match segmentation_ok(ast, model, &pc, &caps, Quirks::default()) {
                        Tri::Yes => rpt.bucket("segmentation-consistent"),
                        Tri::Unknown => rpt.inconclusive("model-budget", json!({"expr": clip(case.expr)})),
                        Tri::No => {
                            // Is the path itself outside MAY? Then C01 owns the disagreement.
                            if model.matches(&pc, Mode::May, Quirks::default()) == Tri::No {
                                rpt.bucket("skipped:path-outside-model-language(C01)");
                            }
                            else {
                                let first_is_rooted_tree = !model.asts[0].1.rooting_first.is_empty();
                                let rep_edge_quirk = Quirks {
                                    rooted_leading_tree_is_dotstar: false,
                                    rep_edge_tree_any_form: true,
                                };
                                let both_quirks = Quirks {
                                    rooted_leading_tree_is_dotstar: true,
                                    rep_edge_tree_any_form: true,
                                };
                                let mut undecided = false;
                                let mut seg = |q: Quirks| {
                                    let r = segmentation_ok(ast, model, &pc, &caps, q);
                                    if r == Tri::Unknown {
                                        undecided = true;
                                    }
                                    r == Tri::Yes
                                };
                                let key = if first_is_rooted_tree && seg(rooted_quirk) {
                                    Some("rooted-leading-tree-captures-partial-component")
                                }
                                else if seg(rep_edge_quirk) {
                                    Some("tree-wildcard-at-edge-of-repetition-body-encoded-as-expression-edge")
                                }
                                else if first_is_rooted_tree && seg(both_quirks) {
                                    Some("rooted-leading-tree-captures-partial-component")
                                }
                                else {
                                    None
                                };
                                if key.is_none() && undecided {
                                    // (Thorough tier, seed 2: `<<</**/a:3,5>:2,>:2,>/**` on a
                                    // 300-character path; see DESIGN section 13.)
                                    rpt.inconclusive(
                                        "attribution-to-listed-deviation-exceeds-model-budget",
                                        json!({"expr": clip(case.expr), "path": clip(p)}),
                                    );
                                }
                                else {
                                    rpt.disagreement(
                                        &ctx.known,
                                        "captures-inconsistent-with-expression",
                                        key,
                                        json!({"expr": clip(case.expr), "path": clip(p), "captures": (1..=n).map(|i| mt.get(i)).collect::<Vec<_>>()}),
                                    );
                                }
                            }
                        },
                    }
                }
            }
        }
        let owned_b = mt.into_owned();
        for i in 0..(n + 3) {
            let borrowed: Option<&str> = if i == 0 {
                Some(p.as_str())
            }
            else if i <= n {
                caps[i - 1].map(|(cs, ce)| {
                    let bs: usize = pc[..cs].iter().map(|c| c.len_utf8()).sum();
                    let be: usize = pc[..ce].iter().map(|c| c.len_utf8()).sum();
                    &p[bs..be]
                })
            }
            else {
                None
            };
            if owned_b.get(i) != borrowed {
                rpt.disagreement(
                    &ctx.known,
                    "owned-matched-text-differs-from-borrowed",
                    None,
                    json!({"expr": clip(case.expr), "path": clip(p), "index": i, "borrowed": borrowed, "owned": owned_b.get(i), "route": "into_owned"}),
                );
                break;
            }
        }
    }
    // Captures reported for the postfix of a partition describe the postfix expression.
    if let Some((_, Some(post))) = guarded(|| case.glob.clone().partition()) {
        let post_expr = post.to_string();
        let flags_before_tree = case.ast.as_ref().map_or(false, |a| {
            a.seq.toks.iter().any(|t| matches!(t.node, Node::Tree { lead: true, .. }) && t.span.0 != t.core.0)
        });
        crate::monitors::group_b::check_capture_spans(&post_expr, &post, "postfix", ctx, rpt, flags_before_tree);
        rpt.bucket("postfix-captures-checked");
        // The postfix of a glob that was first converted into its owned form (it is recompiled
        // from the rebuilt token tree) has matched text exactly when, and exactly as, the
        // postfix of the borrowed glob has.
        let npost = guarded(|| post.captures().count()).unwrap_or(0);
        let view = |g: &Glob, p: &str| -> Option<Option<Vec<Option<String>>>> {
            guarded(|| {
                let cand = CandidatePath::from(p);
                g.matched(&cand).map(|m| (0..npost + 2).map(|i| m.get(i).map(|s| s.to_string())).collect())
            })
        };
        for (route, owned) in [
            ("into_owned+partition", guarded(|| case.glob.clone().into_owned())),
            ("from_str+partition", guarded(|| case.expr.parse::<Glob<'static>>().ok()).flatten()),
        ] {
            let post_o = match owned.and_then(|o| guarded(|| o.partition())) {
                Some((_, Some(g))) => g,
                _ => continue,
            };
            rpt.bucket("owned-postfix-matched-text-compared");
            for p in &case.paths {
                // The path itself and each of its suffixes that begin a component.
                let mut rests: Vec<&str> = vec![p.as_str()];
                rests.extend(p.match_indices('/').map(|(i, _)| &p[i + 1..]));
                for r in rests.into_iter().take(6) {
                    if let (Some(b), Some(o)) = (view(&post, r), view(&post_o, r)) {
                        rpt.evaluations += 1;
                        if b != o {
                            rpt.disagreement(
                                &ctx.known,
                                "postfix-of-owned-glob-has-different-matched-text",
                                None,
                                json!({"expr": clip(case.expr), "postfix": clip(&post_expr), "path": clip(r), "route": route, "borrowed": b, "owned": o}),
                            );
                            break;
                        }
                    }
                }
            }
        }
    }
    if n > 0 && matched_paths > 0 {
        rpt.nontrivial.insert(hash_str(case.expr));
        rpt.bucket("globs-with-captures-and-matches");
    }
    if saw_nonparticipating {
        rpt.bucket("non-participating-capture-observed");
    }
    rpt.sample(json!({"expr": clip(case.expr), "capturing_tokens": n, "matched_paths": matched_paths}));
}

// ------------------------------------------------------------------------------------------
// C07
// ------------------------------------------------------------------------------------------

fn paths_for(expr: &str, glob: &Glob, rng: &mut Rng, budget: &PathBudget) -> Vec<String> {
    let ast = parse::parse(expr).ok();
    let hir = rhir::parse(glob.verif_program_pattern());
    case::candidates(ast.as_ref(), hir.as_ref(), rng, budget).0
}

/// Does the expression contain a tree wildcard at the edge of the body of a repetition that can
/// iterate more than once? (Trigger of the listed finding
/// "tree-wildcard-at-edge-of-repetition-body-encoded-as-expression-edge".)
fn has_rep_edge_tree(ast: &Ast) -> bool {
    !crate::refmodel::matcher::static_info(ast).rep_edge.is_empty()
}

/// Trigger of a listed finding: a part of the family (the repetition written out zero times) has a
/// tree wildcard at the very beginning or end of the expression that is not there in the whole.
fn vanishing_repetition_exposes_tree(fam: &transform::Family) -> bool {
    use crate::refmodel::matcher::static_info;
    let whole = match parse::parse(&fam.whole) {
        Ok(a) => a,
        Err(_) => return false,
    };
    let wi = static_info(&whole);
    let wn = wi.static_first.len() + wi.static_last.len();
    // (Counting misses the case in which the whole has another tree wildcard at its edge — inside
    // the final repetition itself — so the shape is also looked for directly: a tree wildcard
    // written next to a repetition that may vanish.)
    // A token that begins (ends) with a tree wildcard, directly or through the first (last) tokens
    // of its branches.
    fn edge_is_tree(t: &Tok, first: bool) -> bool {
        let edge = |s: &Seq| if first { s.toks.first().map_or(false, |t| edge_is_tree(t, first)) } else { s.toks.last().map_or(false, |t| edge_is_tree(t, first)) };
        match &t.node {
            Node::Tree { .. } => true,
            Node::Rep { body, .. } => edge(body),
            Node::Alt(bs) => bs.iter().any(edge),
            _ => false,
        }
    }
    fn tree_next_to_optional_repetition(seq: &Seq) -> bool {
        let adjacent = seq.toks.windows(2).any(|w| {
            (matches!(w[1].node, Node::Rep { lo: 0, .. }) && edge_is_tree(&w[0], false))
                || (matches!(w[0].node, Node::Rep { lo: 0, .. }) && edge_is_tree(&w[1], true))
        });
        adjacent
            || seq.toks.iter().any(|t| match &t.node {
                Node::Rep { body, .. } => tree_next_to_optional_repetition(body),
                Node::Alt(bs) => bs.iter().any(tree_next_to_optional_repetition),
                _ => false,
            })
    }
    tree_next_to_optional_repetition(&whole.seq)
        || fam.parts.iter().any(|e| {
            parse::parse(e).map_or(false, |a| {
                let i = static_info(&a);
                i.static_first.len() + i.static_last.len() > wn
            })
        })
}

/// A negation of an (empty) walk by the pattern: the hook `verif_residue` tells whether the
/// negation would discard an entry with the given root-relative path.
fn neg_probe<'t, P: wax::Pattern<'t> + Clone>(p: &P) -> Option<Not<WalkTree>> {
    guarded(|| std::path::Path::new("/nonexistent-waxmon").walk().not(p.clone()).ok()).flatten()
}

/// Consequence of the listed C01 finding (a rooted leading tree wildcard accepts partial
/// components): true if every one of the given expressions — the members of a family that match
/// `p` — begins with such a tree wildcard, is denied `p` by the reference model and is granted it
/// once the model's named quirk is switched on.
fn only_rooted_quirk_explains(matching: &[&str], p: &str) -> bool {
    let rooted = Quirks {
        rooted_leading_tree_is_dotstar: true,
        rep_edge_tree_any_form: false,
    };
    !matching.is_empty()
        && matching.iter().all(|e| {
            parse::parse(e).ok().map_or(false, |a| {
                if crate::refmodel::matcher::static_info(&a).rooting_first.is_empty() {
                    return false;
                }
                let m = ModelPattern::single(a);
                let pc = chars(p);
                m.matches(&pc, Mode::May, Quirks::default()) == Tri::No && m.matches(&pc, Mode::May, rooted) != Tri::No
            })
        })
}

fn c07(case: &Case, ctx: &Ctx, rpt: &mut Report, rng: &mut Rng, stream: &ExprStream, idx: usize) {
    let budget = PathBudget {
        model: 6,
        hir: 10,
        mutations: 12,
        generic: true,
    };
    if let Some(ast) = &case.ast {
        if ast.notes.is_empty() {
            // Sanity: the re-spelled expression must be the same pattern; otherwise the
            // transformations are not trustworthy for this input.
            let respelled = transform::unparse(ast);
            let same = match case::build(&respelled) {
                case::BuildOutcome::Built(g) => case
                    .paths
                    .iter()
                    .all(|p| guarded(|| g.is_match(p.as_str())) == case.is_match(p)),
                _ => false,
            };
            if !same {
                rpt.inconclusive(
                    "respelled-expression-differs",
                    json!({"expr": clip(case.expr), "respelled": clip(&respelled)}),
                );
            }
            else {
                for fam in transform::families(ast) {
                    let whole = match case::build(&fam.whole) {
                        case::BuildOutcome::Built(g) => g,
                        _ => continue,
                    };
                    let mut parts: Vec<Glob> = Vec::new();
                    let mut all = true;
                    for e in &fam.parts {
                        match case::build(e) {
                            case::BuildOutcome::Built(g) => parts.push(g),
                            _ => {
                                all = false;
                                break;
                            },
                        }
                    }
                    if !all {
                        rpt.bucket("family-skipped:some-member-does-not-build");
                        continue;
                    }
                    rpt.bucket(&format!("family:{}", fam.kind));
                    if fam.depth >= 1 {
                        rpt.bucket("family:nested-target");
                    }
                    let mut paths: Vec<String> = case.paths.clone();
                    for p in paths_for(&fam.whole, &whole, rng, &budget) {
                        if !paths.contains(&p) {
                            paths.push(p);
                        }
                    }
                    for (e, g) in fam.parts.iter().zip(parts.iter()) {
                        for p in paths_for(e, g, rng, &budget) {
                            if !paths.contains(&p) {
                                paths.push(p);
                            }
                        }
                    }
                    // The same members as negations of a walk (`not` compiles its own programs
                    // from the token trees).
                    let neg_whole = neg_probe(&whole);
                    let neg_parts: Option<Vec<Not<WalkTree>>> = parts.iter().map(neg_probe).collect();
                    if neg_whole.is_some() && neg_parts.is_some() {
                        rpt.bucket("family:negation-route-compared");
                    }
                    let mut both = (false, false);
                    for p in &paths {
                        if let (Some(nw), Some(nps)) = (&neg_whole, &neg_parts) {
                            if let Some(wn) = guarded(|| nw.verif_residue(p.as_str()).is_some()) {
                                let un = nps.iter().any(|n| guarded(|| n.verif_residue(p.as_str()).is_some()) == Some(true));
                                rpt.evaluations += 1;
                                let bad = if fam.exact { wn != un } else { un && !wn };
                                if bad {
                                    let key = if has_rep_edge_tree(ast)
                                        || parse::parse(&fam.whole).map_or(false, |a| has_rep_edge_tree(&a))
                                    {
                                        Some("tree-wildcard-at-edge-of-repetition-body-encoded-as-expression-edge")
                                    }
                                    else if {
                                        let matching: Vec<&str> = if wn {
                                            vec![fam.whole.as_str()]
                                        }
                                        else {
                                            fam.parts
                                                .iter()
                                                .zip(nps.iter())
                                                .filter(|(_, n)| guarded(|| n.verif_residue(p.as_str()).is_some()) == Some(true))
                                                .map(|(e, _)| e.as_str())
                                                .collect()
                                        };
                                        only_rooted_quirk_explains(&matching, p)
                                    } {
                                        Some("rooted-leading-tree-matches-partial-component")
                                    }
                                    else if fam.kind == "repetition-is-iteration" && un && !wn && vanishing_repetition_exposes_tree(&fam) {
                                        Some("tree-wildcard-next-to-vanishing-repetition-not-encoded-as-edge")
                                    }
                                    else {
                                        None
                                    };
                                    rpt.disagreement(
                                        &ctx.known,
                                        &format!("{}(as-negations)", fam.kind),
                                        key,
                                        json!({"whole": clip(&fam.whole), "parts": fam.parts, "path": clip(p), "not(whole)_discards": wn, "some_not(part)_discards": un, "exact": fam.exact}),
                                    );
                                }
                            }
                        }
                        let w = match guarded(|| whole.is_match(p.as_str())) {
                            Some(b) => b,
                            None => continue,
                        };
                        let mut u = false;
                        for g in &parts {
                            if guarded(|| g.is_match(p.as_str())) == Some(true) {
                                u = true;
                                break;
                            }
                        }
                        rpt.evaluations += 1;
                        if w {
                            both.0 = true;
                        }
                        else {
                            both.1 = true;
                        }
                        let bad = if fam.exact { w != u } else { u && !w };
                        if bad {
                            let key = if has_rep_edge_tree(ast)
                                || parse::parse(&fam.whole).map_or(false, |a| has_rep_edge_tree(&a))
                            {
                                Some("tree-wildcard-at-edge-of-repetition-body-encoded-as-expression-edge")
                            }
                            else if {
                                let matching: Vec<&str> = if w {
                                    vec![fam.whole.as_str()]
                                }
                                else {
                                    fam.parts
                                        .iter()
                                        .zip(parts.iter())
                                        .filter(|(_, g)| guarded(|| g.is_match(p.as_str())) == Some(true))
                                        .map(|(e, _)| e.as_str())
                                        .collect()
                                };
                                only_rooted_quirk_explains(&matching, p)
                            } {
                                Some("rooted-leading-tree-matches-partial-component")
                            }
                            else if fam.kind == "repetition-is-iteration" && u && !w && vanishing_repetition_exposes_tree(&fam) {
                                Some("tree-wildcard-next-to-vanishing-repetition-not-encoded-as-edge")
                            }
                            else {
                                None
                            };
                            rpt.disagreement(
                                &ctx.known,
                                fam.kind,
                                key,
                                json!({"whole": clip(&fam.whole), "parts": fam.parts, "path": clip(p), "whole_matches": w, "union_matches": u, "exact": fam.exact}),
                            );
                        }
                    }
                    if both.0 && both.1 {
                        rpt.nontrivial
                            .insert(hash_str(&format!("{}|{}", fam.kind, fam.whole)));
                    }
                    rpt.sample(json!({"kind": fam.kind, "whole": clip(&fam.whole), "parts": fam.parts, "paths": paths.len()}));
                }
            }
        }
    }
    // The union of no patterns matches nothing (every 500th case, so that every shard of every
    // run observes it).
    if idx % 500 == 0 {
        if let Some(none) = guarded(|| wax::any(Vec::<&str>::new()).ok()).flatten() {
            rpt.bucket("any-route:no-patterns");
            for p in ["", "a", "/", "a/b"] {
                rpt.evaluations += 1;
                if guarded(|| none.is_match(p)) == Some(true) {
                    rpt.disagreement(
                        &ctx.known,
                        "any-is-not-the-union-of-its-patterns",
                        if p.is_empty() { Some("combinator-of-no-patterns-matches-the-empty-path") } else { None },
                        json!({"patterns": [], "path": p, "any_matches": true, "union_matches": false}),
                    );
                }
            }
        }
    }
    // `any` is union: text / compiled / nested.
    let other1 = stream.at((idx * 7 + 3) % stream.len());
    let other2 = stream.at((idx * 13 + 5) % stream.len());
    let mut exprs: Vec<&str> = vec![case.expr];
    if case::guarded(|| Glob::new(&other1).is_ok()) == Some(true) {
        exprs.push(&other1);
    }
    if rng.chance(1, 2) && case::guarded(|| Glob::new(&other2).is_ok()) == Some(true) {
        exprs.push(&other2);
    }
    // One case in eight: the empty pattern is a member too, at a random position.
    if rng.chance(1, 8) {
        let at = rng.below(exprs.len() + 1);
        exprs.insert(at, "");
    }
    let globs: Vec<Glob> = exprs.iter().filter_map(|e| Glob::new(e).ok()).collect();
    if globs.len() != exprs.len() {
        return;
    }
    let from_text: Option<Any> = guarded(|| wax::any(exprs.iter().copied()).ok()).flatten();
    let from_globs: Option<Any> = guarded(|| wax::any(globs.clone()).ok()).flatten();
    // Nested: the members in two or more consecutive groups of random sizes, each a combinator
    // (built alternately from compiled globs and from text), combined by an outer combinator.
    let groups = random_groups(rng, exprs.len());
    let nested: Option<Any> = guarded(|| {
        let mut inner: Vec<Result<Any, wax::BuildError>> = Vec::new();
        let mut at = 0;
        for (k, n) in groups.iter().enumerate() {
            if k % 2 == 0 {
                inner.push(wax::any(globs[at..at + n].iter().cloned()));
            }
            else {
                inner.push(wax::any(exprs[at..at + n].iter().copied()));
            }
            at += n;
        }
        wax::any(inner).ok()
    })
    .flatten();
    let mut paths = case.paths.clone();
    if !paths.iter().any(|p| p.is_empty()) {
        paths.push(String::new());
    }
    for (e, g) in exprs.iter().zip(globs.iter()).skip(1) {
        for p in paths_for(e, g, rng, &budget) {
            if !paths.contains(&p) {
                paths.push(p);
            }
        }
    }
    // The combinator as a negation.
    if let Some(neg) = from_globs.as_ref().and_then(neg_probe) {
        rpt.bucket("any-route:negation");
        for p in &paths {
            let a = match guarded(|| neg.verif_residue(p.as_str()).is_some()) {
                Some(b) => b,
                None => continue,
            };
            let u = globs
                .iter()
                .any(|g| guarded(|| g.is_match(p.as_str())) == Some(true));
            rpt.evaluations += 1;
            if a != u {
                rpt.disagreement(
                    &ctx.known,
                    "any-as-negation-is-not-the-union-of-its-patterns",
                    None,
                    json!({"patterns": exprs, "path": clip(p), "not(any)_discards": a, "union_matches": u}),
                );
            }
        }
    }
    // From the owned forms of the compiled globs (the owned glob keeps its program, the
    // combinator recompiles from the rebuilt token trees).
    let from_owned: Option<Any> = guarded(|| wax::any(globs.iter().cloned().map(Glob::into_owned)).ok()).flatten();
    let from_parsed: Option<Any> = guarded(|| {
        let parsed: Option<Vec<Glob<'static>>> = exprs.iter().map(|e| e.parse::<Glob<'static>>().ok()).collect();
        parsed.and_then(|v| wax::any(v).ok())
    })
    .flatten();
    for (route, any) in [("text", &from_text), ("compiled", &from_globs), ("nested", &nested), ("owned", &from_owned), ("parsed", &from_parsed)] {
        let any = match any {
            Some(a) => a,
            None => {
                rpt.bucket("any-did-not-build");
                continue;
            },
        };
        rpt.bucket(&format!("any-route:{}", route));
        let mut both = (false, false);
        for p in &paths {
            let a = match guarded(|| any.is_match(p.as_str())) {
                Some(b) => b,
                None => continue,
            };
            let u = globs
                .iter()
                .any(|g| guarded(|| g.is_match(p.as_str())) == Some(true));
            rpt.evaluations += 1;
            if a {
                both.0 = true;
            }
            else {
                both.1 = true;
            }
            if a != u {
                rpt.disagreement(
                    &ctx.known,
                    "any-is-not-the-union-of-its-patterns",
                    None,
                    json!({"patterns": exprs, "route": route, "path": clip(p), "any_matches": a, "union_matches": u}),
                );
            }
        }
        if both.0 && both.1 && exprs.len() > 1 {
            rpt.nontrivial
                .insert(hash_str(&format!("any|{}|{:?}", route, exprs)));
        }
    }
}

// ------------------------------------------------------------------------------------------
// C08
// ------------------------------------------------------------------------------------------

fn first_postfix_literal_needs_flag(ast: &Ast, cut: usize) -> bool {
    // True if some literal of the postfix (text from byte `cut`) is case-insensitive although no
    // flag is written inside the postfix text before it: the flag state is inherited from the
    // removed prefix.
    let mut inherited = false;
    let post = &ast.expr[cut.min(ast.expr.len())..];
    let _ = post;
    let mut seen_flag_in_post = false;
    // Walk tokens in textual order.
    let mut toks: Vec<&Tok> = Vec::new();
    ast.seq.walk(&mut |t, _| toks.push(t));
    toks.sort_by_key(|t| t.span.0);
    for t in toks {
        if t.span.0 < cut {
            continue;
        }
        if t.span.0 != t.core.0 {
            seen_flag_in_post = true;
        }
        if let Node::Lit { ci, .. } = &t.node {
            if *ci && !seen_flag_in_post {
                inherited = true;
            }
        }
    }
    inherited
}

fn c08(case: &Case, ctx: &Ctx, rpt: &mut Report, rng: &mut Rng) {
    let parts = guarded(|| case.glob.clone().partition());
    let (prefix, post) = match parts {
        Some(p) => p,
        None => {
            rpt.bucket("panics-outside-C05");
            return;
        },
    };
    let prefix_text = prefix.to_string_lossy().to_string();
    rpt.bucket(if prefix_text.is_empty() { "prefix:empty" } else { "prefix:non-empty" });
    rpt.bucket(if post.is_some() { "postfix:some" } else { "postfix:none" });
    if prefix_text.starts_with('/') {
        rpt.bucket("prefix:rooted");
    }
    let witness_base = json!({"expr": clip(case.expr), "prefix": clip(&prefix_text), "postfix": post.as_ref().map(|g| g.to_string())});
    let rooted_by_repetition = case.ast.as_ref().map_or(false, |a| {
        matches!(a.seq.toks.first().map(|t| &t.node), Some(Node::Rep { .. } | Node::Alt(_)))
    });
    // Trigger of a listed finding: the first token after the prefix is a tree wildcard with an
    // absorbed leading separator that has flags written immediately before it.
    let flags_before_rooted_tree = case.ast.as_ref().map_or(false, |a| {
        a.seq.toks.iter().any(|t| matches!(t.node, Node::Tree { lead: true, .. }) && t.span.0 != t.core.0)
    });
    if let Some(post) = &post {
        rpt.evaluations += 1;
        let hr = guarded(|| post.has_root());
        if hr.is_some() && hr != Some(When::Never) {
            let key = if rooted_by_repetition {
                Some("glob-rooted-through-repetition-keeps-root-in-postfix")
            }
            else {
                None
            };
            rpt.disagreement(
                &ctx.known,
                "postfix-is-rooted",
                key,
                json!({"case": witness_base, "has_root": hr.map(when_str)}),
            );
        }
    }
    // The owned glob partitions like the borrowed one.
    if let Some((op, og)) = guarded(|| case.glob.clone().into_owned().partition()) {
        rpt.evaluations += 1;
        let same = op == prefix && og.as_ref().map(|g| g.to_string()) == post.as_ref().map(|g| g.to_string());
        if !same {
            rpt.disagreement(
                &ctx.known,
                "owned-glob-partitions-differently",
                None,
                json!({"case": witness_base, "owned_prefix": op.to_string_lossy(), "owned_postfix": og.map(|g| g.to_string())}),
            );
        }
        rpt.bucket("owned-partition-compared");
    }
    // Paths: candidates of the original plus prefix mutations, canonical only.
    let mut paths: Vec<String> = case.paths.clone();
    if let Some(post) = &post {
        let post_expr = post.to_string();
        for r in paths_for(&post_expr, post, rng, &PathBudget { model: 6, hir: 8, mutations: 8, generic: false }) {
            let joined = if prefix_text.is_empty() {
                r.clone()
            }
            else if prefix_text.ends_with('/') {
                format!("{}{}", prefix_text, r)
            }
            else {
                format!("{}/{}", prefix_text, r)
            };
            for p in [joined, r] {
                if !paths.contains(&p) {
                    paths.push(p);
                }
            }
        }
    }
    if !prefix_text.is_empty() {
        let extra = vec![
            prefix_text.clone(),
            prefix_text.trim_end_matches('/').to_string(),
            format!("{}x", prefix_text),
            format!("x{}", prefix_text),
        ];
        for p in extra {
            if !paths.contains(&p) {
                paths.push(p);
            }
        }
    }
    if prefix_text.split('/').any(|c| c == "." || c == "..") {
        // `.`/`..` components of the prefix are native path semantics (`Path::strip_prefix`
        // normalises `.` away): the component law is not decidable textually.
        rpt.inconclusive("prefix-has-semantic-components", witness_base.clone());
        rpt.sample(witness_base);
        return;
    }
    let mut both = (false, false);
    for p in paths.iter().filter(|p| gpath::is_canonical(p)) {
        let lhs = match case.is_match(p) {
            Some(b) => b,
            None => continue,
        };
        let rhs = match Path::new(p).strip_prefix(&prefix) {
            Ok(r) => match &post {
                Some(post) => match guarded(|| post.is_match(r)) {
                    Some(b) => b,
                    None => continue,
                },
                None => r.as_os_str().is_empty(),
            },
            Err(_) => false,
        };
        rpt.evaluations += 1;
        if lhs {
            both.0 = true;
        }
        else {
            both.1 = true;
        }
        if lhs != rhs {
            let remainder_empty = Path::new(p)
                .strip_prefix(&prefix)
                .map_or(false, |r| r.as_os_str().is_empty());
            // Consequence of the listed C01 finding: the glob begins with a rooted tree wildcard
            // (which accepts partial components) and matches a path that prefix + postfix do not.
            // With a documented expression the reference model must not affirm the path (MUST
            // language) and must grant it once the named quirk is switched on.
            let documented = case.ast.as_ref().map_or(false, |a| a.notes.is_empty());
            let outside_model = documented
                && case.model.as_ref().map_or(false, |m| m.matches(&chars(p), Mode::May, Quirks::default()) == Tri::No);
            let explained_by_rooted_quirk = lhs
                && !rhs
                && case.ast.as_ref().map_or(false, |a| {
                    matches!(a.seq.toks.first().map(|t| &t.node), Some(Node::Tree { lead: true, trail: true }))
                })
                && (!documented
                    || (case.model.as_ref().map_or(false, |m| m.matches(&chars(p), Mode::Must, Quirks::default()) != Tri::Yes)
                        && case.model.as_ref().map_or(false, |m| {
                            // (The other listed quirk is switched on as well when the expression
                            // has a tree wildcard at the edge of a repetition body.)
                            m.matches(
                                &chars(p),
                                Mode::May,
                                Quirks {
                                    rooted_leading_tree_is_dotstar: true,
                                    rep_edge_tree_any_form: m.asts.iter().any(|(_, i)| !i.rep_edge.is_empty()),
                                },
                            ) != Tri::No
                        })));
            // Any other path the original glob matches although it is outside the documented
            // language is C01's to judge (its known findings are listed there).
            if lhs && outside_model && !explained_by_rooted_quirk {
                rpt.bucket("matched-path-outside-model-language(also C01's)");
            }
            let lists_sep = case.ast.as_ref().map_or(false, |a| {
                a.has_feature(&|t, _| match &t.node {
                    Node::Class { neg: false, items } => items.iter().all(|(a, b)| *a == '/' && *b == '/'),
                    _ => false,
                })
            });
            let key = if rooted_by_repetition {
                Some("glob-rooted-through-repetition-keeps-root-in-postfix")
            }
            else if lists_sep && !lhs && rhs {
                Some("class-of-only-separators-is-invariant-text-but-matches-nothing")
            }
            else if explained_by_rooted_quirk {
                Some("rooted-leading-tree-matches-partial-component")
            }
            else if remainder_empty && !lhs && rhs {
                Some("empty-remainder-matches-postfix-but-glob-requires-separator")
            }
            else if flags_before_rooted_tree {
                Some("flags-before-first-postfix-tree-wildcard-corrupt-postfix")
            }
            else {
                None
            };
            rpt.disagreement(
                &ctx.known,
                "partition-changes-what-matches",
                key,
                json!({"case": witness_base, "path": clip(p), "glob_matches": lhs, "prefix_plus_postfix_matches": rhs}),
            );
        }
    }
    if both.0 && both.1 && !prefix_text.is_empty() && post.is_some() {
        rpt.nontrivial.insert(hash_str(case.expr));
    }
    if case.ast.as_ref().map_or(true, |a| !a.notes.is_empty()) {
        rpt.inconclusive("undocumented-syntax(display checks skipped)", json!({"expr": clip(case.expr)}));
        rpt.sample(witness_base);
        return;
    }
    if let Some(post) = post {
        let post_expr = post.to_string();
        // Suffix of the original expression.
        rpt.evaluations += 1;
        if !case.expr.ends_with(&post_expr) {
            rpt.disagreement(
                &ctx.known,
                "postfix-display-is-not-a-suffix-of-the-expression",
                if flags_before_rooted_tree { Some("flags-before-first-postfix-tree-wildcard-corrupt-postfix") } else { None },
                witness_base.clone(),
            );
        }
        let post_spans: Vec<(usize, (usize, usize))> = guarded(|| post.captures().map(|c| (c.index(), c.span())).collect()).unwrap_or_default();
        // Re-partition.
        if let Some((p2, g2)) = guarded(|| post.clone().partition()) {
            rpt.evaluations += 1;
            let same = p2.as_os_str().is_empty()
                && g2.as_ref().map_or(false, |g| g.to_string() == post_expr);
            if !same {
                let key = if rooted_by_repetition {
                    Some("glob-rooted-through-repetition-keeps-root-in-postfix")
                }
                else {
                    None
                };
                rpt.disagreement(
                    &ctx.known,
                    "repartition-is-not-idempotent",
                    key,
                    json!({"case": witness_base, "second_prefix": p2.to_string_lossy(), "second_postfix": g2.map(|g| g.to_string())}),
                );
            }
        }
        // Rebuild from the displayed text.
        match case::build(&post_expr) {
            case::BuildOutcome::Built(rebuilt) => {
                let cut = case.expr.len().saturating_sub(post_expr.len());
                let flag_key = if case.expr.ends_with(&post_expr)
                    && case.ast.as_ref().map_or(false, |a| first_postfix_literal_needs_flag(a, cut))
                {
                    Some("postfix-display-drops-inherited-case-flag")
                }
                else {
                    None
                };
                let rpaths = paths_for(&post_expr, &rebuilt, rng, &PathBudget { model: 8, hir: 10, mutations: 12, generic: true });
                let mut all: Vec<String> = rpaths;
                for p in &paths {
                    if let Ok(r) = Path::new(p).strip_prefix(&prefix) {
                        if let Some(s) = r.to_str() {
                            if !all.iter().any(|x| x == s) {
                                all.push(s.to_string());
                            }
                        }
                    }
                }
                for r in &all {
                    let a = guarded(|| post.is_match(r.as_str()));
                    let b = guarded(|| rebuilt.is_match(r.as_str()));
                    if a.is_none() || b.is_none() {
                        continue;
                    }
                    rpt.evaluations += 1;
                    if a != b {
                        rpt.disagreement(
                            &ctx.known,
                            "rebuilt-postfix-differs-from-postfix",
                            flag_key,
                            json!({"case": witness_base, "path": clip(r), "postfix_matches": a, "rebuilt_matches": b}),
                        );
                    }
                }
                let rebuilt_spans: Vec<(usize, (usize, usize))> =
                    guarded(|| rebuilt.captures().map(|c| (c.index(), c.span())).collect()).unwrap_or_default();
                rpt.evaluations += 1;
                if rebuilt_spans != post_spans {
                    rpt.disagreement(
                        &ctx.known,
                        "postfix-capture-spans-differ-from-rebuilt",
                        None,
                        json!({"case": witness_base, "postfix_spans": post_spans, "rebuilt_spans": rebuilt_spans}),
                    );
                }
            },
            case::BuildOutcome::Err(e) => {
                rpt.disagreement(
                    &ctx.known,
                    "postfix-display-does-not-rebuild",
                    if flags_before_rooted_tree { Some("flags-before-first-postfix-tree-wildcard-corrupt-postfix") } else { None },
                    json!({"case": witness_base, "error": e.to_string()}),
                );
            },
            case::BuildOutcome::Panicked(_) => rpt.bucket("panics-outside-C05"),
        }
    }
    rpt.sample(witness_base);
}

// ------------------------------------------------------------------------------------------
// C09 – C12 (queries vs. matching), for a Glob or an Any
// ------------------------------------------------------------------------------------------

struct Queried {
    /// Reference parses of the members regardless of notes (used only to classify findings).
    class_asts: Vec<(Ast, crate::refmodel::matcher::StaticInfo)>,
    /// Reference model of the pattern (all members parse and are documented syntax), used to leave
    /// paths that are outside the documented language to C01.
    model: Option<ModelPattern>,
    label: Value,
    exhaustive: Option<When>,
    depth: Option<DepthVariance>,
    text: Option<Option<String>>,
    root: Option<When>,
    is_any: bool,
    /// The combinator nests a combinator of no patterns and none of its actual members matches the
    /// empty path: a match of the empty path is then the listed C07 finding (`any([])` is encoded
    /// as the empty group), seen from a query monitor.
    empty_inner_explains_empty_path: bool,
}

fn model_of(exprs: &[&str]) -> Option<ModelPattern> {
    let mut asts = Vec::new();
    for e in exprs {
        let a = parse::parse(e).ok()?;
        if !a.notes.is_empty() {
            return None;
        }
        asts.push(a);
    }
    Some(ModelPattern::union(asts))
}

fn query<'t, P: Program<'t>>(p: &P, label: Value, is_any: bool, model: Option<ModelPattern>, exprs: &[&str]) -> Queried {
    Queried {
        class_asts: exprs
            .iter()
            .filter_map(|e| parse::parse(e).ok())
            .map(|a| {
                let i = crate::refmodel::matcher::static_info(&a);
                (a, i)
            })
            .collect(),
        model,
        label,
        exhaustive: guarded(|| p.is_exhaustive()),
        depth: guarded(|| p.depth()),
        text: guarded(|| text_str(&p.text())),
        root: guarded(|| p.has_root()),
        is_any,
        empty_inner_explains_empty_path: false,
    }
}

/// Rooted and unrooted members for combinators of combinators.
const ROOT_MIX_POOL: &[&str] = &["/a", "/b/**", "/**/x", "/*", "/", "c", "d/*", "**/e", "*.f", "</g:1,>", "{h,i}/j", "/{k,l}"];

const ROOTED_POOL: &[&str] = &["/a", "/b/**", "/**/x", "/*", "/", "/{k,l}", "/**/*.y", "</**/z:1,>", "</g:1,2>", "/**", "{/m,/n/o}", "/a/*/b"];

/// Splits `n` members into two or more consecutive non-empty groups.
fn random_groups(rng: &mut Rng, n: usize) -> Vec<usize> {
    if n < 2 {
        return vec![n];
    }
    let mut sizes = Vec::new();
    let mut left = n;
    while left > 0 {
        let max = if sizes.is_empty() { left - 1 } else { left };
        let k = rng.range(1, max.min(3));
        sizes.push(k);
        left -= k;
    }
    sizes
}

/// Syntactic triggers of the listed C09 findings on the reference parse.
pub fn c09_key(ast: Option<&Ast>) -> Option<&'static str> {
    let ast = ast?;
    // An open-ended repetition whose body ends with a separator (`<*/>`): it needs the trailing
    // separator, so `p/x` does not match although `p` does.
    fn ends_with_open_sep_rep(seq: &Seq) -> bool {
        match seq.toks.last().map(|t| &t.node) {
            Some(Node::Rep { body, hi: None, .. }) => {
                matches!(body.toks.last().map(|b| &b.node), Some(Node::Sep)) || ends_with_open_sep_rep(body)
            },
            Some(Node::Rep { body, .. }) => ends_with_open_sep_rep(body),
            Some(Node::Alt(bs)) => bs.iter().any(ends_with_open_sep_rep),
            _ => false,
        }
    }
    if ends_with_open_sep_rep(&ast.seq) {
        return Some("open-repetition-of-separator-terminated-components-judged-exhaustive");
    }
    // A branch token written after a tree wildcard or after an open-ended repetition (any depth,
    // textual order): the exhaustiveness fold skips over a branch whose text is bounded instead
    // of stopping at it.
    let mut first_open: Option<usize> = None;
    // (start, end) of the first tree wildcard or open-ended repetition. The branch must be
    // written *after* it — not inside it: a group nested in the open repetition's own body is
    // not what the listed finding is about (round 9, C09-J hid behind the wider reading).
    let mut first_open: Option<(usize, usize)> = None;
    ast.seq.walk(&mut |t, _| {
        if matches!(t.node, Node::Tree { .. } | Node::Rep { hi: None, .. }) {
            let this = (t.span.0, t.span.0 + t.span.1);
            first_open = Some(match first_open {
                Some(f) if f.0 <= this.0 => f,
                _ => this,
            });
        }
    });
    // The one shape of a branch nested in the open repetition that the implementation's fold
    // guards explicitly (and judges correctly today: `<{*/*/}>*` is Never): a single alternative
    // made of wildcards and separators only that spans two or more components. A wrong verdict
    // there is not the listed finding (round 9, C09-J).
    fn guarded_wildcard_body(t: &Tok) -> bool {
        let body: &Seq = match &t.node {
            Node::Alt(bs) if bs.len() == 1 => &bs[0],
            Node::Rep { body, .. } => body,
            _ => return false,
        };
        let mut seps = 0;
        let mut only = true;
        body.walk(&mut |x, _| match x.node {
            Node::Sep => seps += 1,
            Node::One | Node::Zom { .. } => {},
            _ => only = false,
        });
        only && seps >= 2
    }
    if let Some((start, end)) = first_open {
        if ast.has_feature(&|t, _| {
            matches!(t.node, Node::Alt(_) | Node::Rep { .. }) && t.span.0 > start && (t.span.0 >= end || !guarded_wildcard_body(t))
        }) {
            return Some("bounded-branch-skipped-by-exhaustiveness-fold");
        }
    }
    let has_optional_rep_with_sep = ast.has_feature(&|t, _| match &t.node {
        Node::Rep { body, lo, .. } => {
            let mut boundary = false;
            body.walk(&mut |b, _| {
                if b.is_boundary() {
                    boundary = true;
                }
            });
            *lo == 0 && boundary
        },
        _ => false,
    });
    if has_optional_rep_with_sep && ast.has_feature(&|t, _| matches!(t.node, Node::Tree { .. })) {
        return Some("optional-repetition-of-components-judged-exhaustive");
    }
    None
}

fn c09_paths(q: &Queried, is_match: &dyn Fn(&str) -> Option<bool>, paths: &[String], alphabet: &[char], ast: Option<&Ast>, ctx: &Ctx, rpt: &mut Report, rng: &mut Rng) {
    // A combinator with an empty pattern among its members (listed finding).
    // Listed finding: the fold walks the alternatives of a combinator backwards and stops at the
    // empty pattern (a bare leaf), dropping it and every pattern listed before it in the same
    // (possibly nested) combinator. Only a matched path that is matched by a dropped member and
    // by no member that the fold kept is explained by it.
    let members: Vec<String> = if q.is_any {
        q.label.get("any").and_then(|a| a.as_array()).map_or(Vec::new(), |a| a.iter().filter_map(|e| e.as_str().map(String::from)).collect())
    }
    else {
        Vec::new()
    };
    let mut dropped = vec![false; members.len()];
    {
        let sizes: Vec<usize> = q
            .label
            .get("nested_group_sizes")
            .and_then(|g| g.as_array())
            .map_or(Vec::new(), |g| g.iter().filter_map(|n| n.as_u64().map(|n| n as usize)).collect());
        let sizes = if sizes.is_empty() || sizes.iter().sum::<usize>() != members.len() { vec![members.len()] } else { sizes };
        let mut at = 0;
        for n in sizes {
            if let Some(last) = members[at..at + n].iter().rposition(|e| e.is_empty()) {
                for d in dropped[at..=at + last].iter_mut() {
                    *d = true;
                }
            }
            at += n;
        }
    }
    let member_globs: Vec<Option<Glob>> = members.iter().map(|e| Glob::new(e).ok()).collect();
    let explained_by_empty_member = |p: &str| {
        let hit = |want: bool| {
            member_globs
                .iter()
                .zip(dropped.iter())
                .any(|(g, d)| *d == want && g.as_ref().map_or(false, |g| guarded(|| g.is_match(p)) == Some(true)))
        };
        hit(true) && !hit(false)
    };
    if q.exhaustive != Some(When::Always) {
        rpt.bucket("verdict:not-always");
        return;
    }
    rpt.bucket("verdict:always");
    let names: Vec<String> = {
        let mut v: Vec<String> = vec!["x".into(), "a".into(), ".hidden".into(), "金".into(), "A".into(), "b".into(), "x.y".into()];
        for c in alphabet.iter().take(8) {
            if *c != '/' && *c != '.' {
                v.push(c.to_string());
            }
        }
        v
    };
    let mut pairs = 0;
    for p in paths.iter().filter(|p| gpath::is_canonical(p)) {
        if is_match(p) != Some(true) {
            continue;
        }
        for round in 0..4 {
            // One descendant in four lies well beneath the matched path (a bounded pattern that is
            // wrongly judged exhaustive may still match the first few levels; round 8, C09-I).
            let k = if round == 3 { rng.range(4, 9) } else { rng.range(1, 3) };
            let mut d = p.clone();
            let mut child = String::new();
            for n in 0..k {
                if !d.ends_with('/') || d.is_empty() {
                    if !d.is_empty() {
                        d.push('/');
                    }
                }
                let name: &String = rng.pick(&names);
                d.push_str(name);
                if n == 0 {
                    child = d.clone();
                }
            }
            if !gpath::is_canonical(&d) {
                continue;
            }
            let got = match is_match(&d) {
                Some(b) => b,
                None => continue,
            };
            rpt.evaluations += 1;
            pairs += 1;
            if !got {
                let key = if p.is_empty() && q.empty_inner_explains_empty_path {
                    Some("combinator-of-no-patterns-matches-the-empty-path")
                }
                else if explained_by_empty_member(p) {
                    Some("empty-pattern-in-combinator-hides-earlier-patterns-from-the-exhaustiveness-fold")
                }
                else if (p.is_empty() || p == "/") && is_match(&child) == Some(false) {
                    Some("matches-empty-path-but-not-its-children")
                }
                else {
                    c09_key(ast)
                };
                rpt.disagreement(
                    &ctx.known,
                    "always-exhaustive-but-descendant-does-not-match",
                    key,
                    json!({"pattern": q.label, "matched": clip(p), "unmatched_descendant": clip(&d)}),
                );
            }
        }
    }
    if pairs > 0 {
        rpt.nontrivial.insert(hash_str(&q.label.to_string()));
    }
}

/// A tree wildcard at the edge of a branch whose open side (no absorbed separator) faces a
/// neighbouring token rather than the beginning or end of the whole expression.
fn has_open_sided_tree(ast: &Ast, info: &crate::refmodel::matcher::StaticInfo) -> bool {
    ast.has_feature(&|t, _| match t.node {
        Node::Tree { lead, trail } => {
            (!lead && !info.static_first.contains(&t.id)) || (!trail && !info.static_last.contains(&t.id))
        },
        _ => false,
    })
}

fn c10_paths(q: &Queried, is_match: &dyn Fn(&str) -> Option<bool>, paths: &[String], ctx: &Ctx, rpt: &mut Report, members: &[Glob]) {
    let depth = match &q.depth {
        Some(d) => d,
        None => {
            rpt.bucket("panics-outside-C05");
            return;
        },
    };
    let (lo, hi) = depth_bounds(depth);
    rpt.bucket(match (depth, hi) {
        (DepthVariance::Invariant(_), _) => "depth:invariant",
        (_, Some(_)) => "depth:bounded",
        (_, None) => "depth:open",
    });
    let mut seen = BTreeSet::new();
    // Canonical paths, and canonical paths followed by one separator (what a pattern that ends
    // with a separator matches; the number of names is unaffected).
    for p in paths.iter().filter(|p| gpath::is_canonical(p) || (p.len() > 1 && p.ends_with('/') && gpath::is_canonical(&p[..p.len() - 1]) && !p.ends_with("//"))) {
        let rooted = p.starts_with('/');
        match q.root {
            Some(When::Always) if !rooted => continue,
            Some(When::Never) if rooted => continue,
            _ => {},
        }
        if is_match(p) != Some(true) {
            continue;
        }
        if !members.is_empty() {
            // A combinator: the path is in the domain only if a member of matching rootedness
            // matches it ("relative when the pattern is unrooted and rooted when it is rooted").
            let in_domain = members.iter().any(|g| {
                guarded(|| g.is_match(p.as_str()) && (g.has_root() == When::Always) == rooted) == Some(true)
            });
            if !in_domain {
                continue;
            }
        }
        let n = gpath::component_count(p);
        seen.insert(n);
        rpt.evaluations += 1;
        if n < lo || hi.map_or(false, |h| n > h) {
            // (After a trailing separator the empty remainder is such an empty "component".)
            // The two listed findings about tree wildcards are told apart from anything else by
            // the reference model, not by the shape of the expression alone (round 7: the shape
            // alone hid C10-H, an encoder change that glues `a/**/` to `b`): the repetition-edge
            // finding is a *matching* deviation, so the path must be outside the documented
            // language and inside it under that named quirk; the miscount is a defect of the
            // depth analysis, so the path must be inside the documented language. Where the
            // model has no answer the cause is undecided (inconclusive).
            let pc = crate::refmodel::matcher::chars(p);
            let rep_edge_shape = q.class_asts.iter().any(|(_, i)| !i.rep_edge.is_empty());
            let branch_tree_shape = q.class_asts.iter().any(|(a, i)| {
                has_open_sided_tree(a, i) || a.has_feature(&|t, d| d >= 1 && matches!(t.node, Node::Tree { .. }))
            });
            let may = |quirks: Quirks| q.model.as_ref().map_or(Tri::Unknown, |m| m.matches(&pc, Mode::May, quirks));
            let mut undecided = false;
            let key = if p.is_empty() && q.empty_inner_explains_empty_path {
                Some("combinator-of-no-patterns-matches-the-empty-path")
            }
            else if n == 0 || (p.ends_with('/') && p.len() > 1 && n + 1 == lo) {
                Some("empty-component-counted-as-a-component")
            }
            else if rep_edge_shape || branch_tree_shape {
                // A path that is outside the documented language only by the *other* listed
                // matching deviation (a rooted leading tree wildcard accepting a partial
                // component, which cannot itself move a path out of the depth bounds) counts as
                // inside it here (thorough tier, seed 2: `/**/(?-ii)c1{*/**}` on `/AEC1`).
                let rooted_first = q.class_asts.iter().any(|(_, i)| !i.rooting_first.is_empty());
                let in_language = match may(Quirks::default()) {
                    Tri::No if rooted_first => may(Quirks { rooted_leading_tree_is_dotstar: true, rep_edge_tree_any_form: false }),
                    other => other,
                };
                match in_language {
                    Tri::Yes if branch_tree_shape => Some("tree-wildcard-inside-branch-miscounted"),
                    Tri::Yes => None,
                    Tri::No => {
                        let with_edge = match may(Quirks { rooted_leading_tree_is_dotstar: false, rep_edge_tree_any_form: true }) {
                            Tri::No if rooted_first => may(Quirks { rooted_leading_tree_is_dotstar: true, rep_edge_tree_any_form: true }),
                            other => other,
                        };
                        match with_edge {
                            Tri::Yes if rep_edge_shape => Some("tree-wildcard-at-edge-of-repetition-body-encoded-as-expression-edge"),
                            Tri::Unknown if rep_edge_shape => {
                                undecided = true;
                                None
                            },
                            _ => None,
                        }
                    },
                    Tri::Unknown => {
                        undecided = true;
                        None
                    },
                }
            }
            else {
                None
            };
            if undecided {
                rpt.inconclusive(
                    "attribution-to-listed-deviation-undecided-by-the-model",
                    json!({"pattern": q.label, "path": clip(p)}),
                );
                continue;
            }
            rpt.disagreement(
                &ctx.known,
                "matched-path-depth-outside-reported-bounds",
                key,
                json!({"pattern": q.label, "path": clip(p), "components": n, "reported_depth": depth_str(depth)}),
            );
        }
    }
    if seen.len() >= 2 || (!seen.is_empty() && hi.is_some()) {
        rpt.nontrivial.insert(hash_str(&q.label.to_string()));
    }
}

fn c11_paths(q: &Queried, is_match: &dyn Fn(&str) -> Option<bool>, paths: &[String], lists_separator_class: bool, ctx: &Ctx, rpt: &mut Report, rng: &mut Rng, alphabet: &[char]) {
    let text = match &q.text {
        Some(t) => t,
        None => {
            rpt.bucket("panics-outside-C05");
            return;
        },
    };
    let t = match text {
        Some(t) => t.clone(),
        None => {
            rpt.bucket("text:variant");
            return;
        },
    };
    rpt.bucket("text:invariant");
    rpt.evaluations += 1;
    let self_match = is_match(&t);
    if self_match == Some(false) && !lists_separator_class {
        rpt.disagreement(
            &ctx.known,
            "invariant-text-is-not-matched",
            None,
            json!({"pattern": q.label, "text": clip(&t)}),
        );
    }
    let mut tried: Vec<String> = paths.to_vec();
    for _ in 0..24 {
        tried.push(gpath::mutate(rng, &t, alphabet));
    }
    tried.push(t.to_uppercase());
    tried.push(t.to_lowercase());
    // Per-character case variants through the regex folding tables.
    let tc: Vec<char> = t.chars().collect();
    for (i, c) in tc.iter().enumerate().take(16) {
        for v in case_variants(*c) {
            let mut x = tc.clone();
            x[i] = v;
            tried.push(x.into_iter().collect());
        }
    }
    let mut others = 0;
    for x in &tried {
        if *x == t {
            continue;
        }
        let got = match is_match(x) {
            Some(b) => b,
            None => continue,
        };
        rpt.evaluations += 1;
        others += 1;
        if got {
            let key = if x.is_empty() && q.empty_inner_explains_empty_path {
                Some("combinator-of-no-patterns-matches-the-empty-path")
            }
            else if x.chars().count() == tc.len()
                && x.chars().zip(tc.iter()).all(|(a, b)| a == *b || (!has_casing_std(*b) && crate::refmodel::matcher::fold_eq(a, *b)))
            {
                Some("caseless-by-std-but-folded-by-regex")
            }
            else {
                None
            };
            rpt.disagreement(
                &ctx.known,
                "invariant-text-but-another-path-matches",
                key,
                json!({"pattern": q.label, "text": clip(&t), "other": clip(x)}),
            );
        }
    }
    if others > 0 {
        rpt.nontrivial.insert(hash_str(&q.label.to_string()));
    }
}

fn has_casing_std(c: char) -> bool {
    c.is_lowercase() != c.is_uppercase()
}

fn case_variants(c: char) -> Vec<char> {
    let mut out = Vec::new();
    for v in c.to_lowercase().chain(c.to_uppercase()) {
        if v != c && !out.contains(&v) {
            out.push(v);
        }
    }
    for v in ['ǅ', 'ǆ', 'Ǆ', 'ς', 'σ', 'Σ', '\u{212A}', 'k', 'K', 'ſ', 's', 'S', 'µ', '\u{3bc}', 'Ω', '\u{2126}', 'ß', 'ẞ'] {
        if v != c && !out.contains(&v) && crate::refmodel::matcher::fold_eq(c, v) {
            out.push(v);
        }
    }
    out
}

/// Does some component of the expression, at any nesting depth, consist solely of literals
/// spelling `.` or `..` and is clearly delimited?
fn has_semantic_component(ast: &Ast) -> bool {
    fn go(seq: &Seq, left_delim: bool, right_delim: bool) -> bool {
        let n = seq.toks.len();
        let mut i = 0;
        while i < n {
            if seq.toks[i].is_boundary() {
                i += 1;
                continue;
            }
            let start = i;
            while i < n && !seq.toks[i].is_boundary() {
                i += 1;
            }
            let end = i; // run is [start, end)
            let l = if start == 0 { left_delim } else { true };
            let r = if end == n { right_delim } else { true };
            let run = &seq.toks[start..end];
            if l && r && run.iter().all(|t| matches!(t.node, Node::Lit { .. })) {
                let text: String = run
                    .iter()
                    .map(|t| match &t.node {
                        Node::Lit { text, .. } => text.as_str(),
                        _ => "",
                    })
                    .collect();
                if text == "." || text == ".." {
                    return true;
                }
            }
            // Descend into branches of this run.
            for (k, t) in run.iter().enumerate() {
                let bl = if k == 0 { l } else { false };
                let br = if k + 1 == run.len() { r } else { false };
                match &t.node {
                    Node::Alt(bs) => {
                        for b in bs {
                            if go(b, bl, br) {
                                return true;
                            }
                        }
                    },
                    Node::Rep { body, hi, .. } => {
                        // Only the single-iteration reading is clear.
                        let _ = hi;
                        if go(body, bl, br) {
                            return true;
                        }
                    },
                    _ => {},
                }
            }
        }
        false
    }
    go(&ast.seq, true, true)
}

fn c12_paths(q: &Queried, is_match: &dyn Fn(&str) -> Option<bool>, paths: &[String], ctx: &Ctx, rpt: &mut Report, only_rooted_tree: bool) {
    let root = match q.root {
        Some(r) => r,
        None => {
            rpt.bucket("panics-outside-C05");
            return;
        },
    };
    rpt.bucket(&format!("root:{}{}", if q.is_any { "any:" } else { "glob:" }, when_str(root)));
    rpt.evaluations += 1;
    if !q.is_any && root == When::Sometimes {
        rpt.disagreement(
            &ctx.known,
            "glob-is-sometimes-rooted",
            Some("rule-checker-admits-sometimes-rooted-glob"),
            json!({"pattern": q.label}),
        );
    }
    if root == When::Always {
        let mut n = 0;
        for p in paths {
            // (No deferral to C01 here: a relative path matched by an always-rooted pattern
            // refutes the statement whether or not the documented language contains it.)
            if is_match(p) != Some(true) {
                continue;
            }
            rpt.evaluations += 1;
            n += 1;
            if !p.starts_with('/') {
                let key = if p.is_empty() && q.empty_inner_explains_empty_path {
                    Some("combinator-of-no-patterns-matches-the-empty-path")
                }
                else if only_rooted_tree {
                    Some("only-token-rooted-tree-matches-relative-paths")
                }
                else {
                    None
                };
                rpt.disagreement(
                    &ctx.known,
                    "always-rooted-but-matches-a-relative-path",
                    key,
                    json!({"pattern": q.label, "path": clip(p)}),
                );
            }
        }
        if n > 0 {
            rpt.nontrivial.insert(hash_str(&q.label.to_string()));
        }
    }
}

// ------------------------------------------------------------------------------------------
// C19
// ------------------------------------------------------------------------------------------

fn observe<'t, P: Program<'t>>(p: &P, paths: &[String], with_captures: usize) -> Option<Value> {
    guarded(|| {
        let mut matches = Vec::new();
        for path in paths {
            let cand = CandidatePath::from(path.as_str());
            let m = p.matched(&cand);
            let is = p.is_match(path.as_str());
            let caps: Value = match &m {
                None => Value::Null,
                Some(m) => Value::Array((0..=with_captures).map(|i| json!(m.get(i))).collect()),
            };
            matches.push(json!([is, m.is_some(), caps]));
        }
        json!({
            "matches": matches,
            "depth": depth_str(&p.depth()),
            "text": text_str(&p.text()),
            "has_root": when_str(p.has_root()),
            "is_exhaustive": when_str(p.is_exhaustive()),
        })
    })
}

fn glob_extras(g: &Glob) -> Option<Value> {
    guarded(|| {
        json!({
            "captures": g.captures().map(|c| json!([c.index(), c.span().0, c.span().1])).collect::<Vec<_>>(),
            "semantic": g.has_semantic_literals(),
            "display": g.to_string(),
            "is_empty": g.is_empty(),
        })
    })
}

fn first_difference(a: &Value, b: &Value, paths: &[String]) -> Value {
    if let (Some(ao), Some(bo)) = (a.as_object(), b.as_object()) {
        for (k, av) in ao {
            let bv = bo.get(k).unwrap_or(&Value::Null);
            if av != bv {
                if k == "matches" {
                    if let (Some(aa), Some(ba)) = (av.as_array(), bv.as_array()) {
                        for (i, (x, y)) in aa.iter().zip(ba.iter()).enumerate() {
                            if x != y {
                                return json!({"observation": "match/captures", "path": paths.get(i), "left": x, "right": y});
                            }
                        }
                    }
                }
                return json!({"observation": k, "left": av, "right": bv});
            }
        }
    }
    json!({"left": a, "right": b})
}

fn c19(case: &Case, ctx: &Ctx, rpt: &mut Report, rng: &mut Rng, stream: &ExprStream, idx: usize) {
    let ncap = guarded(|| case.glob.captures().count()).unwrap_or(0);
    let base = match (observe(&case.glob, &case.paths, ncap + 2), glob_extras(&case.glob)) {
        (Some(a), Some(b)) => json!({"program": a, "glob": b}),
        _ => {
            rpt.bucket("panics-outside-C05");
            return;
        },
    };
    // Owned matched text returns the same captures as the borrowed matched text it was made from.
    for p in &case.paths {
        let cand = CandidatePath::from(p.as_str());
        let res = guarded(|| {
            case.glob.matched(&cand).map(|m| {
                let a = m.to_owned();
                let borrowed: Vec<Option<String>> = (0..ncap + 3).map(|i| m.get(i).map(|s| s.to_string())).collect();
                let to_owned: Vec<Option<String>> = (0..ncap + 3).map(|i| a.get(i).map(|s| s.to_string())).collect();
                // Owning an owned value again, and re-matching the candidate path that the matched
                // text hands back, are further steps of the same conversions (round 7: sequences).
                let a2 = a.to_owned().into_owned().to_owned();
                let again: Vec<Option<String>> = (0..ncap + 3).map(|i| a2.get(i).map(|s| s.to_string())).collect();
                let back = a.to_candidate_path();
                let rematched: Option<Vec<Option<String>>> = case
                    .glob
                    .matched(&back)
                    .map(|m2| (0..ncap + 3).map(|i| m2.get(i).map(|s| s.to_string())).collect());
                let complete = (m.complete().to_string(), a.complete().to_string());
                let b = m.into_owned();
                let into_owned: Vec<Option<String>> = (0..ncap + 3).map(|i| b.get(i).map(|s| s.to_string())).collect();
                (borrowed, to_owned, into_owned, again, rematched, complete)
            })
        });
        if let Some(Some((b, t, i, again, rematched, complete))) = res {
            rpt.evaluations += 1;
            rpt.bucket("owned-matched-text-compared");
            if b.iter().skip(1).any(|c| c.is_none()) {
                rpt.bucket("owned-matched-text-with-non-participating-capture");
            }
            if b != again || rematched.as_ref() != Some(&b) || complete.0 != *p || complete.1 != *p {
                rpt.disagreement(
                    &ctx.known,
                    "owned-matched-text-differs-from-borrowed",
                    None,
                    json!({"expr": clip(case.expr), "path": clip(p), "borrowed": b, "owned-again": again, "rematched-from-its-candidate-path": rematched, "complete": [complete.0, complete.1]}),
                );
                break;
            }
            if b != t || b != i {
                rpt.disagreement(
                    &ctx.known,
                    "owned-matched-text-differs-from-borrowed",
                    None,
                    json!({"expr": clip(case.expr), "path": clip(p), "borrowed": b, "to_owned": t, "into_owned": i}),
                );
                break;
            }
        }
    }
    let display = case.glob.to_string();
    // Routes. The source string of some routes is dropped and its buffer overwritten before the
    // observations are taken, so a dangling borrow would show.
    let mut routes: Vec<(&'static str, Option<Glob<'static>>)> = Vec::new();
    routes.push(("clone+into_owned", guarded(|| case.glob.clone().into_owned())));
    routes.push(("from_str", guarded(|| display.parse::<Glob<'static>>().ok()).flatten()));
    routes.push((
        "new-from-display+into_owned(source dropped)",
        guarded(|| {
            let mut source = display.clone();
            let g = Glob::new(&source).ok().map(Glob::into_owned);
            // Overwrite and drop the source buffer.
            unsafe {
                for b in source.as_bytes_mut() {
                    *b = b'#';
                }
            }
            drop(source);
            g
        })
        .flatten(),
    ));
    routes.push((
        "try_from+into_owned",
        guarded(|| Glob::try_from(display.as_str()).ok().map(Glob::into_owned)).flatten(),
    ));
    routes.push(("into_owned-twice", guarded(|| case.glob.clone().into_owned().into_owned())));
    let borrowed_clone = guarded(|| case.glob.clone());
    let mut distinct = false;
    if let Some(c) = &borrowed_clone {
        if let (Some(a), Some(b)) = (observe(c, &case.paths, ncap + 2), glob_extras(c)) {
            rpt.evaluations += 1;
            let o = json!({"program": a, "glob": b});
            if o != base {
                rpt.disagreement(
                    &ctx.known,
                    "conversion-changes-behaviour",
                    None,
                    json!({"expr": clip(case.expr), "route": "clone", "difference": first_difference(&base["program"], &o["program"], &case.paths), "glob_left": base["glob"], "glob_right": o["glob"]}),
                );
            }
        }
    }
    for (route, g) in &routes {
        let g = match g {
            Some(g) => g,
            None => {
                rpt.evaluations += 1;
                rpt.disagreement(
                    &ctx.known,
                    "conversion-fails",
                    None,
                    json!({"expr": clip(case.expr), "route": route, "display": clip(&display)}),
                );
                continue;
            },
        };
        rpt.bucket(&format!("route:{}", route));
        if let (Some(a), Some(b)) = (observe(g, &case.paths, ncap + 2), glob_extras(g)) {
            rpt.evaluations += 1;
            distinct = true;
            let o = json!({"program": a, "glob": b});
            if o != base {
                rpt.disagreement(
                    &ctx.known,
                    "conversion-changes-behaviour",
                    None,
                    json!({"expr": clip(case.expr), "route": route, "difference": first_difference(&base["program"], &o["program"], &case.paths), "glob_left": base["glob"], "glob_right": o["glob"]}),
                );
            }
        }
    }
    // Sequences of conversions (round 7): two to four steps drawn at random, each applied to the
    // result of the one before; the observations must still be those of the original glob.
    for _ in 0..2 {
        let steps = rng.range(2, 5);
        let mut names: Vec<&'static str> = Vec::new();
        let mut cur: Option<Glob<'static>> = guarded(|| case.glob.clone().into_owned());
        for _ in 0..steps {
            let g = match cur.take() {
                Some(g) => g,
                None => break,
            };
            let (name, next): (&'static str, Option<Glob<'static>>) = match rng.below(6) {
                0 => ("clone", guarded(|| g.clone())),
                1 => ("into_owned", guarded(|| g.into_owned())),
                2 => ("display+from_str", guarded(|| g.to_string().parse::<Glob<'static>>().ok()).flatten()),
                3 => (
                    "display+new+into_owned",
                    guarded(|| {
                        let text = g.to_string();
                        Glob::new(&text).ok().map(Glob::into_owned)
                    })
                    .flatten(),
                ),
                4 => (
                    "display+try_from+into_owned",
                    guarded(|| {
                        let text = g.to_string();
                        Glob::try_from(text.as_str()).ok().map(Glob::into_owned)
                    })
                    .flatten(),
                ),
                _ => (
                    "clone-of-clone-dropped-first",
                    guarded(|| {
                        let c = g.clone();
                        drop(g);
                        c.clone()
                    }),
                ),
            };
            names.push(name);
            cur = next;
        }
        match cur {
            None => {
                rpt.evaluations += 1;
                rpt.disagreement(
                    &ctx.known,
                    "conversion-fails",
                    None,
                    json!({"expr": clip(case.expr), "route": names.join(" -> "), "display": clip(&display)}),
                );
            },
            Some(g) => {
                rpt.bucket("route:sequence");
                if let (Some(a), Some(b)) = (observe(&g, &case.paths, ncap + 2), glob_extras(&g)) {
                    rpt.evaluations += 1;
                    let o = json!({"program": a, "glob": b});
                    if o != base {
                        rpt.disagreement(
                            &ctx.known,
                            "conversion-changes-behaviour",
                            None,
                            json!({"expr": clip(case.expr), "route": names.join(" -> "), "difference": first_difference(&base["program"], &o["program"], &case.paths), "glob_left": base["glob"], "glob_right": o["glob"]}),
                        );
                    }
                }
            },
        }
    }
    // Partition of an owned glob behaves as partition of the borrowed one.
    if let (Some(Some(owned)), Some((bp, bg))) = (
        routes.first().map(|r| r.1.clone()),
        guarded(|| case.glob.clone().partition()),
    ) {
        if let Some((op, og)) = guarded(|| owned.partition()) {
            rpt.evaluations += 1;
            let l = json!([bp.to_string_lossy(), bg.as_ref().map(|g| g.to_string()), bg.as_ref().and_then(|g| observe(g, &case.paths, 2))]);
            let r = json!([op.to_string_lossy(), og.as_ref().map(|g| g.to_string()), og.as_ref().and_then(|g| observe(g, &case.paths, 2))]);
            if l != r {
                rpt.disagreement(
                    &ctx.known,
                    "conversion-changes-behaviour",
                    None,
                    json!({"expr": clip(case.expr), "route": "into_owned+partition", "borrowed": [l[0], l[1]], "owned": [r[0], r[1]]}),
                );
            }
            // The postfix is a glob like any other: displaying it and building the displayed text
            // gives a glob that reports the same capturing sub-expressions (round 9, C19-J: spans
            // of a partitioned glob one byte off while everything else agreed). Documented syntax
            // only, as in C08; what the rebuilt glob *matches* is C08's question.
            if let (Some(bg), true) = (&bg, case.ast.as_ref().map_or(false, |a| a.notes.is_empty())) {
                let text = bg.to_string();
                if let Some(Some(rebuilt)) = guarded(|| Glob::new(&text).ok().map(Glob::into_owned)) {
                    let spans = |g: &Glob| guarded(|| g.captures().map(|c| (c.index(), c.span())).collect::<Vec<_>>());
                    if let (Some(a), Some(b)) = (spans(bg), spans(&rebuilt)) {
                        rpt.evaluations += 1;
                        rpt.bucket("route:partition -> display+new");
                        if a != b || rebuilt.to_string() != text {
                            rpt.disagreement(
                                &ctx.known,
                                "conversion-changes-behaviour",
                                None,
                                json!({"expr": clip(case.expr), "route": "partition -> display+new (the postfix displayed and rebuilt)", "postfix": clip(&text), "postfix_capture_spans": a, "rebuilt_capture_spans": b}),
                            );
                        }
                    }
                }
            }
            // ... and the owned postfix, owned once more and partitioned again, gives what the
            // borrowed postfix gives when it is partitioned again (whether that is the postfix
            // behind an empty prefix is C08's question, not this one's).
            if let (Some(og), Some(bg)) = (og, bg) {
                if let (Some((p2, g2)), Some((p1, g1))) = (
                    guarded(|| og.clone().into_owned().partition()),
                    guarded(|| bg.clone().partition()),
                ) {
                    rpt.evaluations += 1;
                    let l = json!([p1.to_string_lossy(), g1.as_ref().map(|g| g.to_string()), g1.as_ref().and_then(|g| observe(g, &case.paths, 2))]);
                    let r = json!([p2.to_string_lossy(), g2.as_ref().map(|g| g.to_string()), g2.as_ref().and_then(|g| observe(g, &case.paths, 2))]);
                    if l != r {
                        rpt.disagreement(
                            &ctx.known,
                            "conversion-changes-behaviour",
                            None,
                            json!({"expr": clip(case.expr), "route": "into_owned+partition -> into_owned+partition", "borrowed-postfix": [l[0], l[1]], "owned-postfix-partitioned-again": [r[0], r[1]]}),
                        );
                    }
                }
            }
        }
    }
    // Combinator routes: text vs compiled vs nested (captures excluded beyond index 0).
    let other = stream.at((idx * 11 + 1) % stream.len());
    let mut exprs: Vec<&str> = vec![case.expr];
    if guarded(|| Glob::new(&other).is_ok()) == Some(true) && rng.chance(2, 3) {
        exprs.push(&other);
    }
    let globs: Vec<Glob> = exprs.iter().filter_map(|e| Glob::new(e).ok()).collect();
    if globs.len() == exprs.len() {
        let mut paths = case.paths.clone();
        if exprs.len() > 1 {
            for p in paths_for(exprs[1], &globs[1], rng, &PathBudget { model: 6, hir: 8, mutations: 8, generic: false }) {
                if !paths.contains(&p) {
                    paths.push(p);
                }
            }
        }
        let a_text = guarded(|| wax::any(exprs.iter().copied()).ok()).flatten();
        let a_glob = guarded(|| wax::any(globs.clone()).ok()).flatten();
        let a_owned = guarded(|| wax::any(globs.iter().cloned().map(Glob::into_owned)).ok()).flatten();
        let a_nested = guarded(|| wax::any([wax::any(globs.clone())]).ok()).flatten();
        let a_nested2 = guarded(|| wax::any([wax::any([wax::any(exprs.iter().copied())])]).ok()).flatten();
        let o_text = a_text.as_ref().and_then(|a| observe(a, &paths, 0));
        for (route, any) in [("any(compiled)", &a_glob), ("any(owned)", &a_owned), ("any(any(compiled))", &a_nested), ("any(any(any(text)))", &a_nested2)] {
            let o = any.as_ref().and_then(|a| observe(a, &paths, 0));
            match (&o_text, &o) {
                (Some(l), Some(r)) => {
                    rpt.evaluations += 1;
                    rpt.bucket(&format!("route:{}", route));
                    if l != r {
                        rpt.disagreement(
                            &ctx.known,
                            "combinator-route-changes-behaviour",
                            None,
                            json!({"patterns": exprs, "route": route, "difference": first_difference(l, r, &paths)}),
                        );
                    }
                },
                (Some(_), None) | (None, Some(_)) => {
                    rpt.evaluations += 1;
                    rpt.disagreement(
                        &ctx.known,
                        "combinator-route-builds-differently",
                        None,
                        json!({"patterns": exprs, "route": route, "text_built": o_text.is_some(), "route_built": o.is_some()}),
                    );
                },
                _ => {},
            }
        }
        // A combinator of one pattern answers queries like the pattern.
        if exprs.len() == 1 {
            if let (Some(a), Some(g)) = (a_text.as_ref().and_then(|a| observe(a, &paths, 0)), observe(&case.glob, &paths, 0)) {
                rpt.evaluations += 1;
                if a != g {
                    rpt.disagreement(
                        &ctx.known,
                        "combinator-of-one-pattern-differs-from-the-pattern",
                        None,
                        json!({"pattern": clip(case.expr), "difference": first_difference(&g, &a, &paths)}),
                    );
                }
            }
        }
    }
    if distinct && case.paths.iter().any(|p| case.is_match(p) == Some(true)) {
        rpt.nontrivial.insert(hash_str(case.expr));
    }
    rpt.sample(json!({"expr": clip(case.expr), "routes": routes.iter().map(|r| r.0).collect::<Vec<_>>(), "paths": case.paths.len()}));
}

// ------------------------------------------------------------------------------------------

impl Monitor for GroupA {
    fn meta(&self) -> Meta {
        match self.id {
            "C01" => Meta {
                id: "C01",
                group: Group::Pure,
                level: "exploration",
                rule: "expressions: fixed corpus (unit-test, README and property-record expressions) + small-scope sweep of token sequences + grammar-generated + mutated; each built glob is matched against model derivations, derivations of its own compiled regex (hook H1), point mutations and a generic pool; oracle = independent MUST/MAY reference matcher. distinct_nontrivial = distinct expressions with a non-literal token whose candidate set contained both accepted and rejected paths.",
                assumptions: &["reference model of the documented dialect (harness/src/refmodel)", "regex crate as matcher of the emitted regex and arbiter of single-character case folding", "Unix path semantics only"],
                floors: &["feat:class-after-ci-literal", "feat:class-listing-separator", "feat:negated-class", "feat:tree-leading", "feat:tree-middle", "feat:tree-trailing", "feat:tree-only", "feat:tree-depth1", "feat:tree-depth2", "path:newline", "path:empty", "path:rooted", "path:trailing-separator", "path:non-ascii", "nontrivial-expressions"],
            },
            "C04" => Meta {
                id: "C04",
                group: Group::Pure,
                level: "exploration",
                rule: "same expression stream as C01; for every matching candidate path all capture indices 0..n+3 are read (borrowed, to_owned, into_owned) and checked against Glob::captures(), the reference parse and a segmentation search over the reference matcher. distinct_nontrivial = distinct expressions with at least one capturing token and one matching path.",
                assumptions: &["reference model (MAY language per token)", "capture offsets recovered from &str addresses relative to the path"],
                floors: &["globs-with-captures-and-matches", "segmentation-consistent", "non-participating-capture-observed"],
            },
            "C07" => Meta {
                id: "C07",
                group: Group::Pure,
                level: "exploration",
                rule: "for each buildable expression, families of related expressions (each alternation branch substituted, repetitions unrolled up to 4, wrapped in {..}/<..:1>/<..:1,1>, any() of text / compiled / nested) are built with the real code and compared on the union of their candidate paths. distinct_nontrivial = distinct (relation, expression) families whose path set contained both matched and unmatched paths.",
                assumptions: &["reference parser/unparser used only to derive the related expressions; a sanity check requires the re-spelled expression to behave identically first"],
                floors: &["family:alternation-is-union", "family:repetition-is-iteration", "family:wrap-braces", "family:nested-target", "any-route:text", "any-route:compiled", "any-route:nested"],
            },
            "C08" => Meta {
                id: "C08",
                group: Group::Pure,
                level: "exploration",
                rule: "every buildable expression is partitioned; the law glob.is_match(p) == (strip_prefix(prefix) then postfix.is_match) is evaluated on canonical candidate paths of the glob, of the postfix (joined and unjoined) and on prefix mutations; the postfix is re-partitioned, displayed, rebuilt and compared. distinct_nontrivial = distinct expressions with a non-empty prefix and a postfix whose path set had both outcomes.",
                assumptions: &["std::path::Path::strip_prefix as the meaning of 'leading run of components'"],
                floors: &["prefix:non-empty", "prefix:empty", "postfix:some", "postfix:none", "prefix:rooted"],
            },
            "C09" => Meta {
                id: "C09",
                group: Group::Pure,
                level: "exploration",
                rule: "for every glob and any() combinator reporting is_exhaustive()=Always, every matched canonical candidate path is extended by 1-3 components (names from the pattern's alphabet and hostile names) and the descendant must match. distinct_nontrivial = distinct always-exhaustive patterns with at least one (matched path, descendant) pair evaluated.",
                assumptions: &["soundness only (completeness of the verdict is not asserted)"],
                floors: &["verdict:always", "verdict:not-always", "pattern:any"],
            },
            "C10" => Meta {
                id: "C10",
                group: Group::Pure,
                level: "exploration",
                rule: "depth() of every glob and any() combinator is compared with the component count of every matched canonical candidate path (relative for unrooted, rooted for rooted patterns); candidate paths include shallow- and deep-biased derivations of the compiled regex. distinct_nontrivial = distinct patterns with matches at two different depths, or any match under a bounded verdict.",
                assumptions: &["component count = number of non-empty '/'-separated names"],
                floors: &["depth:invariant", "depth:bounded", "depth:open", "pattern:any", "pattern:any(any)"],
            },
            "C11" => Meta {
                id: "C11",
                group: Group::Pure,
                level: "exploration",
                rule: "for every pattern reporting invariant text t: t must match (unless a class lists a separator) and no other candidate (regex derivations, mutations of t, per-character case variants from the folding tables) may match. distinct_nontrivial = distinct invariant patterns with at least one other path evaluated.",
                assumptions: &["case variants drawn from std and regex folding tables"],
                floors: &["text:invariant", "text:variant", "pattern:any", "pattern:any(any)"],
            },
            "C12" => Meta {
                id: "C12",
                group: Group::Pure,
                level: "exploration",
                rule: "has_root()=Always patterns are matched against all candidate paths (every match must start with '/'); globs must never report Sometimes; has_semantic_literals() is compared with the reference parse (a clearly delimited component spelled '.' or '..' at any depth). distinct_nontrivial = distinct always-rooted patterns with a match, plus distinct expressions with a semantic component.",
                assumptions: &["reference parse for component structure"],
                floors: &["pattern:any(any)", "root:glob:always", "root:glob:never", "root:any:sometimes", "semantic:expected-true", "semantic:expected-unknown-or-false"],
            },
            _ => Meta {
                id: "C19",
                group: Group::Pure,
                level: "exploration",
                rule: "observation vector (is_match, matched/captures at all indices, captures() spans, depth, text, has_root, is_exhaustive, has_semantic_literals, Display) compared between a glob and its clone / into_owned / FromStr / TryFrom / Display+new routes (source strings overwritten and dropped first), and between any() of text, compiled, owned and nested inputs. distinct_nontrivial = distinct expressions with at least one route observed and one matching path.",
                assumptions: &["public API only"],
                floors: &["route:clone+into_owned", "route:from_str", "route:any(compiled)", "route:any(any(compiled))"],
            },
        }
    }

    fn total_cases(&self, _tier: Tier, _seed: u64) -> usize {
        self.stream.len()
    }

    fn run_case(&mut self, idx: usize, ctx: &Ctx, rpt: &mut Report) {
        let expr = self.stream.at(idx);
        ctx.begin(idx, &expr);
        let mut rng = Rng::derive(ctx.seed, self.id, idx as u64);
        let case = match Case::new(&expr, &mut rng, &self.budget) {
            Some(c) => c,
            None => {
                rpt.bucket("expressions-not-built");
                return;
            },
        };
        rpt.bucket("expressions-built");
        match self.id {
            "C01" => c01(&case, ctx, rpt),
            "C04" => c04(&case, ctx, rpt),
            "C07" => c07(&case, ctx, rpt, &mut rng, &self.stream, idx),
            "C08" => c08(&case, ctx, rpt, &mut rng),
            "C19" => c19(&case, ctx, rpt, &mut rng, &self.stream, idx),
            _ => {
                // C09–C12 on the glob, then on an `any` combinator containing it.
                let lists_sep = case.ast.as_ref().map_or(true, |a| {
                    a.has_feature(&|t, _| match &t.node {
                        Node::Class { items, .. } => items.iter().any(|(a, b)| *a <= '/' && '/' <= *b),
                        _ => false,
                    })
                });
                let q = query(&case.glob, json!({"glob": clip(case.expr)}), false, model_of(&[case.expr]), &[case.expr]);
                let is_match = |p: &str| case.is_match(p);
                let only_rooted_tree = case.ast.as_ref().map_or(false, |a| {
                    a.seq.toks.len() == 1 && matches!(a.seq.toks[0].node, Node::Tree { lead: true, trail: false })
                });
                match self.id {
                    "C09" | "C10" => {
                        if self.id == "C09" {
                            c09_paths(&q, &is_match, &case.paths, &case.alphabet, case.ast.as_ref(), ctx, rpt, &mut rng);
                        }
                        else {
                            c10_paths(&q, &is_match, &case.paths, ctx, rpt, &[]);
                        }
                        // The same pattern after conversion to an owned value (the owned glob keeps
                        // the compiled program but rebuilds the token tree the queries read).
                        for (route, owned) in [
                            ("into_owned", guarded(|| case.glob.clone().into_owned())),
                            ("from_str", guarded(|| case.expr.parse::<Glob<'static>>().ok()).flatten()),
                        ] {
                            if let Some(o) = owned {
                                let qo = query(&o, json!({"glob": clip(case.expr), "route": route}), false, model_of(&[case.expr]), &[case.expr]);
                                let is_match_o = |p: &str| guarded(|| o.is_match(p));
                                if self.id == "C09" {
                                    c09_paths(&qo, &is_match_o, &case.paths, &case.alphabet, case.ast.as_ref(), ctx, rpt, &mut rng);
                                }
                                else {
                                    c10_paths(&qo, &is_match_o, &case.paths, ctx, rpt, &[]);
                                }
                                rpt.bucket("owned-route-checked");
                            }
                        }
                    },
                    "C11" => {
                        c11_paths(&q, &is_match, &case.paths, lists_sep, ctx, rpt, &mut rng, &case.alphabet);
                        // The same pattern after conversion to an owned value.
                        for (route, owned) in [
                            ("into_owned", guarded(|| case.glob.clone().into_owned())),
                            ("from_str", guarded(|| case.expr.parse::<Glob<'static>>().ok()).flatten()),
                        ] {
                            if let Some(o) = owned {
                                let qo = query(&o, json!({"glob": clip(case.expr), "route": route}), false, model_of(&[case.expr]), &[case.expr]);
                                let is_match_o = |p: &str| guarded(|| o.is_match(p));
                                c11_paths(&qo, &is_match_o, &case.paths, lists_sep, ctx, rpt, &mut rng, &case.alphabet);
                                rpt.bucket("owned-route-checked");
                            }
                        }
                    },
                    _ => {
                        c12_paths(&q, &is_match, &case.paths, ctx, rpt, only_rooted_tree);
                        for (route, owned) in [
                            ("into_owned", guarded(|| case.glob.clone().into_owned())),
                            ("from_str", guarded(|| case.expr.parse::<Glob<'static>>().ok()).flatten()),
                        ] {
                            if let Some(o) = owned {
                                let qo = query(&o, json!({"glob": clip(case.expr), "route": route}), false, model_of(&[case.expr]), &[case.expr]);
                                let is_match_o = |p: &str| guarded(|| o.is_match(p));
                                c12_paths(&qo, &is_match_o, &case.paths, ctx, rpt, only_rooted_tree);
                                if case.ast.as_ref().map_or(false, |a| a.notes.is_empty() && has_semantic_component(a))
                                    && guarded(|| o.has_semantic_literals()) == Some(false)
                                {
                                    rpt.disagreement(
                                        &ctx.known,
                                        "semantic-literal-component-not-reported",
                                        None,
                                        json!({"expr": clip(case.expr), "route": route}),
                                    );
                                }
                                rpt.bucket("owned-route-checked");
                            }
                        }
                        if let Some(ast) = &case.ast {
                            if ast.notes.is_empty() {
                                let expected = has_semantic_component(ast);
                                let got = guarded(|| case.glob.has_semantic_literals());
                                rpt.evaluations += 1;
                                if expected {
                                    rpt.bucket("semantic:expected-true");
                                    rpt.nontrivial.insert(hash_str(&format!("sem|{}", case.expr)));
                                    if got == Some(false) {
                                        rpt.disagreement(
                                            &ctx.known,
                                            "semantic-literal-component-not-reported",
                                            None,
                                            json!({"expr": clip(case.expr)}),
                                        );
                                    }
                                }
                                else {
                                    rpt.bucket("semantic:expected-unknown-or-false");
                                }
                            }
                        }
                    },
                }
                // An `any` combinator over this and one or two other patterns.
                let other1 = self.stream.at((idx * 5 + 2) % self.stream.len());
                let other2 = self.stream.at((idx * 17 + 7) % self.stream.len());
                let mut exprs: Vec<&str> = vec![case.expr];
                if guarded(|| Glob::new(&other1).is_ok()) == Some(true) {
                    exprs.push(&other1);
                }
                if rng.chance(1, 3) && guarded(|| Glob::new(&other2).is_ok()) == Some(true) {
                    exprs.push(&other2);
                }
                // (members, sizes of the consecutive groups of a nested combinator; empty = flat)
                // Round 7: one nested combinator in four additionally holds a combinator of *no*
                // patterns among its inner combinators (`any([any([]), any([a])])`): the union
                // with nothing, which must answer every query like the combinator without it.
                let mut combos: Vec<(Vec<&str>, Vec<usize>)> = Vec::new();
                if exprs.len() > 1 || rng.chance(1, 4) {
                    let groups = if rng.chance(1, 3) { random_groups(&mut rng, exprs.len()) } else { Vec::new() };
                    combos.push((exprs, groups));
                }
                if rng.chance(1, 3) {
                    // A combinator of combinators mixing rooted and unrooted members in a random
                    // order (the documented idiom for mixing compiled and textual patterns).
                    // One mix in three consists of rooted members only (the combinator must then
                    // be always rooted and match no relative path).
                    let mut members: Vec<&str> = Vec::new();
                    if rng.chance(1, 3) {
                        for _ in 0..rng.range(2, 4) {
                            members.push(rng.pick_str(ROOTED_POOL));
                        }
                    }
                    else {
                        members.push(case.expr);
                        for _ in 0..rng.range(2, 4) {
                            members.push(rng.pick_str(ROOT_MIX_POOL));
                        }
                    }
                    rng.shuffle(&mut members);
                    let groups = random_groups(&mut rng, members.len());
                    combos.push((members, groups));
                }
                for pinned in case::PINNED_ANY {
                    if pinned[0] == case.expr {
                        combos.push((pinned.to_vec(), Vec::new()));
                    }
                }
                for (exprs, groups) in combos {
                    let empty_inner_at: Option<usize> = if !groups.is_empty() && rng.chance(1, 4) { Some(rng.below(groups.len() + 1)) } else { None };
                    let built = if groups.is_empty() {
                        guarded(|| wax::any(exprs.iter().copied()).ok()).flatten()
                    }
                    else {
                        guarded(|| {
                            let mut inner = Vec::new();
                            let mut at = 0;
                            for (k, n) in groups.iter().enumerate() {
                                if empty_inner_at == Some(k) {
                                    inner.push(wax::any(Vec::<&str>::new()).ok()?);
                                }
                                inner.push(wax::any(exprs[at..at + n].iter().copied()).ok()?);
                                at += n;
                            }
                            if empty_inner_at == Some(groups.len()) {
                                inner.push(wax::any(Vec::<&str>::new()).ok()?);
                            }
                            wax::any(inner).ok()
                        })
                        .flatten()
                    };
                    if let Some(any) = built {
                        rpt.bucket("pattern:any");
                        if !groups.is_empty() {
                            rpt.bucket("pattern:any(any)");
                        }
                        let mut paths = case.paths.clone();
                        for e in exprs.iter().skip(1) {
                            if let Ok(g) = Glob::new(e) {
                                for p in paths_for(e, &g, &mut rng, &PathBudget { model: 6, hir: 8, mutations: 8, generic: false }) {
                                    if !paths.contains(&p) {
                                        paths.push(p);
                                    }
                                }
                            }
                        }
                        let hir = rhir::parse(any.verif_program_pattern());
                        if let Some(h) = &hir {
                            for p in rhir::sample(h, &mut rng, &case::pool_for(&case.alphabet), 8) {
                                if !paths.contains(&p) {
                                    paths.push(p);
                                }
                            }
                        }
                        let mut q = query(&any, json!({"any": exprs, "nested_group_sizes": groups, "combinator_of_no_patterns_inserted_before_group": empty_inner_at}), true, model_of(&exprs), &exprs);
                        if empty_inner_at.is_some() {
                            rpt.bucket("pattern:any(any) with a combinator of no patterns inside");
                            q.empty_inner_explains_empty_path = !exprs
                                .iter()
                                .any(|e| guarded(|| Glob::new(e).map_or(false, |g| g.is_match(""))) != Some(false));
                        }
                        let is_match = |p: &str| guarded(|| any.is_match(p));
                        let lists_sep_any = true; // unknown for the other patterns: do not demand self-match
                        match self.id {
                            "C09" => {
                                // Trigger classification uses every member's reference parse.
                                let key_ast = exprs
                                    .iter()
                                    .filter_map(|e| parse::parse(e).ok())
                                    .find(|a| c09_key(Some(a)).is_some());
                                c09_paths(&q, &is_match, &paths, &case.alphabet, key_ast.as_ref(), ctx, rpt, &mut rng)
                            },
                            "C10" => {
                                let members: Vec<Glob> = exprs.iter().filter_map(|e| Glob::new(e).ok()).collect();
                                c10_paths(&q, &is_match, &paths, ctx, rpt, &members)
                            },
                            "C11" => c11_paths(&q, &is_match, &paths, lists_sep_any, ctx, rpt, &mut rng, &case.alphabet),
                            _ => c12_paths(&q, &is_match, &paths, ctx, rpt, false),
                        }
                    }
                }
                rpt.sample(json!({"expr": clip(case.expr), "depth": q.depth.as_ref().map(depth_str), "text": q.text, "has_root": q.root.map(when_str), "is_exhaustive": q.exhaustive.map(when_str), "paths": case.paths.len()}));
            },
        }
    }
}
