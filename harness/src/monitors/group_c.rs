//! Group C: walk monitors C02 C03 C13 C14 C15 C16 C20.

use serde_json::{json, Value};
use std::collections::{BTreeMap, BTreeSet};
use std::path::{Path, PathBuf};

use wax::query::When;
use wax::walk::{DepthBehavior, LinkBehavior, VerifEvent, WalkBehavior};
use wax::{Glob, Program};

use crate::case::{self, guarded, PathBudget};
use crate::ctx::{Ctx, ExprStream, Tier};
use crate::fsmodel::{self, is_strictly_beneath, model_walk, rel_of, BuiltTree, Kind, MEntry, TreeSpec};
use crate::gen::path as gpath;
use crate::monitors::group_a::c09_key;
use crate::monitors::walkgen::{self, describe_layer, describe_tree, LayerSpec};
use crate::monitors::walksim::{self, candidate_text, GlobModel, LayerModel};
use crate::monitors::{Group, Meta, Monitor};
use crate::prng::{hash_str, Rng};
use crate::refmodel::parse;
use crate::report::{clip, Report};
use crate::walkrun::{self, Item};

pub struct GroupC {
    id: &'static str,
    cases: usize,
    strings: Option<ExprStream>,
}

impl GroupC {
    pub fn new(id: &str, tier: Tier, seed: u64) -> Self {
        let id = match id {
            "C02" => "C02",
            "C03" => "C03",
            "C13" => "C13",
            "C14" => "C14",
            "C15" => "C15",
            "C16" => "C16",
            _ => "C20",
        };
        let cases = match (id, tier) {
            ("C16", Tier::Quick) => 1500,
            ("C16", Tier::Thorough) => 50000,
            (_, Tier::Quick) => 4000,
            (_, Tier::Thorough) => 100000,
        };
        let strings = match id {
            "C02" | "C03" => Some(ExprStream::new(tier, seed, if tier == Tier::Thorough { 2 } else { 6 })),
            _ => None,
        };
        GroupC { id, cases, strings }
    }
}

fn multiset(paths: impl Iterator<Item = PathBuf>) -> BTreeMap<PathBuf, usize> {
    let mut m = BTreeMap::new();
    for p in paths {
        // Normalise spelling (`.` components, trailing separators) through components.
        let n: PathBuf = p.components().collect();
        *m.entry(n).or_insert(0) += 1;
    }
    m
}

fn diff(expected: &BTreeMap<PathBuf, usize>, observed: &BTreeMap<PathBuf, usize>) -> (Vec<String>, Vec<String>) {
    let mut missing = Vec::new();
    let mut extra = Vec::new();
    for (p, n) in expected {
        let o = observed.get(p).copied().unwrap_or(0);
        if o < *n {
            missing.push(p.to_string_lossy().to_string());
        }
    }
    for (p, n) in observed {
        let e = expected.get(p).copied().unwrap_or(0);
        if *n > e {
            extra.push(p.to_string_lossy().to_string());
        }
    }
    (missing, extra)
}

fn short(v: &[String]) -> Vec<String> {
    v.iter().take(6).cloned().collect()
}

fn behaviour_json(b: &WalkBehavior) -> Value {
    json!({"link": format!("{:?}", b.link), "depth": format!("{:?}", b.depth)})
}

fn container(ctx: &Ctx, idx: usize) -> PathBuf {
    Path::new(&ctx.scratch).join(format!("w{}-{}", std::process::id(), idx))
}

fn ok_paths(items: &[Item]) -> BTreeMap<PathBuf, usize> {
    multiset(items.iter().filter(|i| !i.is_err).filter_map(|i| i.path.clone()))
}

fn err_paths(items: &[Item]) -> BTreeMap<PathBuf, usize> {
    multiset(items.iter().filter(|i| i.is_err).map(|i| i.path.clone().unwrap_or_else(|| PathBuf::from("<no path>"))))
}

fn compile_components(glob: &Glob) -> Vec<regex::Regex> {
    glob.verif_walk_component_patterns()
        .iter()
        .filter_map(|p| regex::Regex::new(p).ok())
        .collect()
}

/// The directory the walk really starts in (base joined with the invariant prefix) is itself a
/// symbolic link: `walkdir` always follows the link it is started at, whatever the link
/// behaviour, so such cases are left out (see DESIGN.md, C13/C15).
fn anchor_is_link(glob: &Glob, base: &Path) -> bool {
    let (start, _) = glob.verif_walk_anchor(base.to_path_buf());
    let trimmed: PathBuf = start.components().collect();
    std::fs::symlink_metadata(&trimmed).map_or(false, |m| m.file_type().is_symlink())
}

fn follow_of(b: &WalkBehavior) -> bool {
    b.link == LinkBehavior::ReadTarget
}

// ------------------------------------------------------------------------------------------
// C02
// ------------------------------------------------------------------------------------------

struct GlobWalkCase {
    family: &'static str,
    expr: String,
    base: PathBuf,
    base_label: &'static str,
    /// Directory the model traverses.
    start: PathBuf,
    /// Candidate text of the start itself.
    start_candidate: String,
}

fn glob_walk_case(rng: &mut Rng, spec: &mut TreeSpec, root: &Path, cwd: &Path, family: usize) -> Option<GlobWalkCase> {
    let mut g = walkgen::walk_glob(rng, spec);
    for _ in 0..20 {
        // `.`/`..` components are only generated deliberately (family 1).
        if Glob::new(&g).map_or(true, |x| !x.has_semantic_literals()) {
            break;
        }
        g = walkgen::walk_glob(rng, spec);
    }
    match family {
        0 => {
            walkgen::steer(rng, spec, &g, 4);
            let bases = walkgen::base_spellings(root, cwd);
            let b = rng.pick(&bases).clone();
            Some(GlobWalkCase {
                family: "unrooted",
                expr: g,
                start: b.path.clone(),
                base: b.path,
                base_label: b.label,
                start_candidate: String::new(),
            })
        },
        1 => {
            // Semantic prefix. The base is a directory inside the tree.
            let dirs = spec.dirs();
            let sub = if dirs.is_empty() { String::new() } else { rng.pick(&dirs).clone() };
            let base = if sub.is_empty() { root.to_path_buf() } else { root.join(&sub) };
            let inner: Vec<String> = spec
                .nodes
                .iter()
                .filter(|n| n.kind == Kind::Dir && fsmodel::is_strictly_beneath(&n.rel, &sub) && !n.rel[sub.len()..].trim_start_matches('/').contains('/'))
                .map(|n| n.rel.rsplit('/').next().unwrap().to_string())
                .collect();
            let prefix = match rng.below(5) {
                0 => ".".to_string(),
                1 | 2 => "..".to_string(),
                3 if !inner.is_empty() => { let n: &String = rng.pick(&inner); format!("{}/..", wax::escape(n)) },
                3 => "./.".to_string(),
                _ => "../..".to_string(),
            };
            if g.is_empty() {
                return None;
            }
            let expr = format!("{}/{}", prefix, g);
            let ast = walkgen::parse_doc(&expr)?;
            let p = walkgen::semantic_prefix(&ast)?;
            Some(GlobWalkCase {
                family: if p.contains("..") { "dotdot-prefix" } else { "dot-prefix" },
                expr,
                start: base.join(&p),
                base,
                base_label: "inside-tree",
                start_candidate: p,
            })
        },
        _ => {
            // Rooted: the glob replaces the base directory.
            walkgen::steer(rng, spec, &g, 3);
            if g.is_empty() {
                return None;
            }
            let dirs = spec.dirs();
            let r0 = if dirs.is_empty() || rng.chance(1, 2) { root.to_path_buf() } else { root.join(rng.pick(&dirs)) };
            let text = r0.to_string_lossy().to_string();
            // One rooted case in three: the first component of the glob is variant, so the
            // invariant prefix is only the root.
            let comps: Vec<String> = r0
                .components()
                .filter_map(|c| match c {
                    std::path::Component::Normal(n) => Some(n.to_string_lossy().to_string()),
                    _ => None,
                })
                .collect();
            if rng.chance(1, 3) && comps.len() >= 2 && comps[0].chars().count() >= 2 && comps[0].is_ascii() {
                let mut first: Vec<char> = comps[0].chars().collect();
                let n = first.len();
                first[n - 1] = '?';
                let first: String = first.into_iter().collect();
                let rest = comps[1..].iter().map(|c| wax::escape(c).to_string()).collect::<Vec<_>>().join("/");
                let expr = format!("/{}/{}/{}", wax::escape(&first).replace("\\?", "?"), rest, g);
                return Some(GlobWalkCase {
                    family: "rooted-variant-first-component",
                    expr,
                    start: r0,
                    base: cwd.to_path_buf(),
                    base_label: "ignored(rooted)",
                    start_candidate: text,
                });
            }
            let expr = format!("{}/{}", wax::escape(&text), g);
            let base = match rng.below(3) {
                0 => cwd.to_path_buf(),
                1 => PathBuf::from("/nonexistent-base"),
                _ => root.to_path_buf(),
            };
            Some(GlobWalkCase {
                family: "rooted",
                expr,
                start: r0,
                base,
                base_label: "ignored(rooted)",
                start_candidate: text,
            })
        },
    }
}

fn c02_walk(idx: usize, ctx: &Ctx, rpt: &mut Report) {
    let mut rng = Rng::derive(ctx.seed, "C02", idx as u64);
    let mut spec = walkgen::tree(&mut rng, 30, idx % 3 == 0, false);
    let cont = container(ctx, idx);
    let cwd = PathBuf::from(&ctx.scratch);
    let root = cont.join("p").join("q").join("root");
    let family = match idx % 10 {
        0..=5 => 0,
        6..=7 => 1,
        _ => 2,
    };
    let case = match glob_walk_case(&mut rng, &mut spec, &root, &cwd, family) {
        Some(c) => c,
        None => return,
    };
    ctx.begin(idx, &format!("walk {} from {:?}", case.expr, case.base));
    let glob = match Glob::new(&case.expr) {
        Ok(g) => g,
        Err(_) => return,
    };
    if !spec.raw.is_empty() {
        rpt.bucket("trees:with-names-that-are-not-utf8");
    }
    let _built = match BuiltTree::build(&cont, &spec) {
        Ok(b) => b,
        Err(e) => {
            rpt.inconclusive("tree-build-failed", json!({"error": e.to_string()}));
            return;
        },
    };
    let behaviour = WalkBehavior {
        // One unrooted walk in five runs with a minimum depth of one, which excludes exactly the
        // base itself (an entry this check already treats as optional): every matching path
        // *beneath* the base must still be yielded, whatever the glob's prefix.
        depth: if matches!(case.family, "unrooted" | "dot-prefix" | "dotdot-prefix") && rng.chance(1, 5) {
            wax::walk::DepthMin::from_min_or_unbounded(1)
        }
        else {
            DepthBehavior::Unbounded
        },
        // The variant-first-component family walks from the file system root: links are not
        // followed there and the model never traverses from the anchor.
        link: if case.family != "rooted-variant-first-component" && rng.chance(1, 3) { LinkBehavior::ReadTarget } else { LinkBehavior::ReadFile },
    };
    if !matches!(behaviour.depth, DepthBehavior::Unbounded) {
        rpt.bucket("behaviour:minimum-depth-one");
    }
    if anchor_is_link(&glob, &case.base) {
        rpt.bucket("skipped:walk-starts-at-a-symbolic-link");
        return;
    }
    let obs = match guarded(|| walkrun::run(&case.base, Some(&glob), behaviour, &[])) {
        Some(o) => o,
        None => {
            rpt.bucket("panics-outside-C05");
            return;
        },
    };
    // When links are followed, re-entrant links are relative to the ancestors of the traversal,
    // which starts at the base joined with the invariant prefix (as in C15); otherwise the model
    // traverses everything beneath the base without consulting the prefix.
    let (start, start_candidate) = if follow_of(&behaviour) {
        let (s, _) = glob.verif_walk_anchor(case.base.clone());
        let pre = if case.family == "rooted" {
            let t = s.to_string_lossy().to_string();
            if t.len() > 1 { t.trim_end_matches('/').to_string() } else { t }
        }
        else {
            // Textual remainder after the base (keeps `..` components).
            let b = case.base.to_string_lossy().to_string();
            let t = s.to_string_lossy().to_string();
            t.strip_prefix(b.trim_end_matches('/')).map(|r| r.trim_matches('/').to_string()).unwrap_or_else(|| rel_of(&s, &case.base).unwrap_or_default())
        };
        (s, pre)
    }
    else {
        (case.start.clone(), case.start_candidate.clone())
    };
    let model = model_walk(&start, follow_of(&behaviour));
    let mut expected = Vec::new();
    let mut matched_dirs = 0;
    let mut optional_start: Option<PathBuf> = None;
    for e in model.oks() {
        let cand = if e.rel.is_empty() {
            start_candidate.clone()
        }
        else if start_candidate.is_empty() {
            e.rel.clone()
        }
        else {
            format!("{}/{}", start_candidate, e.rel)
        };
        if guarded(|| glob.is_match(cand.as_str())) == Some(true) {
            if e.rel.is_empty() {
                // The start itself is yielded "only if" the glob matches the empty path: allowed,
                // not required.
                optional_start = Some(e.path.clone());
                continue;
            }
            expected.push(e.path.clone());
            if e.is_dir {
                matched_dirs += 1;
            }
        }
    }
    let mut exp = multiset(expected.into_iter());
    let got = ok_paths(&obs.items);
    if let Some(s) = optional_start {
        let n: PathBuf = s.components().collect();
        if got.contains_key(&n) {
            exp.insert(n, 1);
            rpt.bucket("start-directory-yielded(glob matches it)");
        }
    }
    rpt.evaluations += 1;
    rpt.bucket(&format!("family:{}", case.family));
    rpt.bucket(&format!("base:{}", case.base_label));
    rpt.bucket_n("entries-yielded", got.values().sum::<usize>() as u64);
    rpt.bucket_n("entries-expected", exp.values().sum::<usize>() as u64);
    let cancels = obs.events.iter().filter(|e| matches!(e, VerifEvent::Cancel { effective: true })).count();
    rpt.bucket_n("effective-prunes-observed", cancels as u64);
    if cancels > 0 {
        rpt.bucket("walks-with-pruning");
    }
    let (missing, extra) = diff(&exp, &got);
    if !missing.is_empty() || !extra.is_empty() {
        let key = match case.family {
            "rooted" | "rooted-variant-first-component" => Some("rooted-glob-walk"),
            "dotdot-prefix" => Some("dotdot-prefix-glob-walk"),
            "dot-prefix" => Some("dot-prefix-glob-walk-yields-nothing"),
            _ => None,
        };
        rpt.disagreement(
            &ctx.known,
            if !missing.is_empty() { "walk-misses-matching-entries" } else { "walk-yields-unexpected-entries" },
            key,
            json!({"glob": clip(&case.expr), "family": case.family, "base": case.base.to_string_lossy(), "behaviour": behaviour_json(&behaviour), "missing": short(&missing), "extra": short(&extra), "tree": describe_tree(&spec)}),
        );
    }
    // The documented idiom `let (prefix, glob) = glob.partition(); glob.walk(dir.join(prefix))`
    // (round 9): the postfix is a glob in its own right — a rebuilt token tree with its own
    // component programs — and walking it from the joined directory is judged by the same oracle:
    // exactly the entries beneath that directory whose relative path the *postfix* matches.
    if case.family == "unrooted" && matches!(behaviour.depth, DepthBehavior::Unbounded) && missing.is_empty() && extra.is_empty() {
        if let Some((prefix, Some(post))) = guarded(|| glob.clone().partition()) {
            let dir = case.base.join(&prefix);
            let dir_is_link = std::fs::symlink_metadata(&dir).map_or(false, |m| m.file_type().is_symlink());
            if !prefix.as_os_str().is_empty() && dir.is_dir() && !dir_is_link {
                if let Some(o2) = guarded(|| walkrun::run(&dir, Some(&post), behaviour, &[])) {
                    let m2 = model_walk(&dir, follow_of(&behaviour));
                    let mut exp2 = multiset(
                        m2.oks()
                            .filter(|e| !e.rel.is_empty() && guarded(|| post.is_match(e.rel.as_str())) == Some(true))
                            .map(|e| e.path.clone()),
                    );
                    let got2 = ok_paths(&o2.items);
                    let start_norm: PathBuf = dir.components().collect();
                    if got2.contains_key(&start_norm) && guarded(|| post.is_match("")) == Some(true) {
                        exp2.insert(start_norm, 1);
                    }
                    rpt.evaluations += 1;
                    rpt.bucket("partitioned:postfix-walked-from-the-joined-directory");
                    let (missing2, extra2) = diff(&exp2, &got2);
                    if !missing2.is_empty() || !extra2.is_empty() {
                        rpt.disagreement(
                            &ctx.known,
                            if !missing2.is_empty() { "walk-misses-matching-entries" } else { "walk-yields-unexpected-entries" },
                            None,
                            json!({"glob": clip(&case.expr), "family": "postfix of a partition, walked from base joined with the prefix", "prefix": prefix.to_string_lossy(), "postfix": clip(&post.to_string()), "base": dir.to_string_lossy(), "behaviour": behaviour_json(&behaviour), "missing": short(&missing2), "extra": short(&extra2), "tree": describe_tree(&spec)}),
                        );
                    }
                }
            }
        }
    }
    if !exp.is_empty() && exp.len() < model.oks().count() {
        rpt.nontrivial.insert(hash_str(&format!("{}|{:?}|{}", case.expr, describe_tree(&spec), case.base_label)));
    }
    if matched_dirs > 0 {
        rpt.bucket("walks-matching-directories");
    }
    rpt.sample(json!({"glob": clip(&case.expr), "family": case.family, "base": case.base_label, "expected": exp.len(), "yielded": got.len(), "tree_nodes": spec.nodes.len(), "prunes": cancels}));
}

/// String-level pruning soundness (hook H2): every matched path passes every component program.
fn c02_strings(expr: &str, idx: usize, ctx: &Ctx, rpt: &mut Report) {
    let mut rng = Rng::derive(ctx.seed, "C02s", idx as u64);
    let case = match case::Case::new(expr, &mut rng, &PathBudget::quick()) {
        Some(c) => c,
        None => return,
    };
    let comps = compile_components(&case.glob);
    if comps.is_empty() {
        rpt.bucket("string-level:no-component-programs");
        return;
    }
    rpt.bucket("string-level:globs-with-component-programs");
    let rooted = guarded(|| case.glob.has_root()) == Some(When::Always);
    for p in case.paths.iter().filter(|p| gpath::is_canonical(p)) {
        if case.is_match(p) != Some(true) || p.starts_with('/') != rooted {
            continue;
        }
        let body = p.strip_prefix('/').unwrap_or(p);
        let pc: Vec<&str> = if body.is_empty() { Vec::new() } else { body.split('/').collect() };
        rpt.evaluations += 1;
        rpt.bucket("string-level:matched-paths-checked");
        for (i, prog) in comps.iter().enumerate() {
            if i >= pc.len() {
                break;
            }
            if !prog.is_match(pc[i]) {
                rpt.disagreement(
                    &ctx.known,
                    "matching-path-would-be-pruned-by-a-component-program",
                    None,
                    json!({"glob": clip(expr), "path": clip(p), "component_index": i, "component_program": prog.as_str()}),
                );
                break;
            }
        }
    }
}

// ------------------------------------------------------------------------------------------
// C03
// ------------------------------------------------------------------------------------------

fn negation_layer(rng: &mut Rng, spec: &TreeSpec) -> LayerSpec {
    match rng.below(4) {
        0 | 1 => LayerSpec::NotText(walkgen::negation(rng, spec)),
        2 => LayerSpec::NotGlob(walkgen::negation(rng, spec)),
        _ => {
            if rng.chance(1, 4) {
                return LayerSpec::NotAny(walkgen::any_with_empty_member(rng, spec));
            }
            let n = rng.range(1, 3);
            LayerSpec::NotAny((0..n).map(|_| walkgen::negation(rng, spec)).collect())
        },
    }
}

fn negation_exprs(l: &LayerSpec) -> Vec<String> {
    match l {
        LayerSpec::NotText(p) | LayerSpec::NotGlob(p) => vec![p.clone()],
        LayerSpec::NotAny(ps) => ps.clone(),
        _ => Vec::new(),
    }
}

fn c03_walk(idx: usize, ctx: &Ctx, rpt: &mut Report) {
    let mut rng = Rng::derive(ctx.seed, "C03", idx as u64);
    let mut spec = walkgen::tree(&mut rng, 30, idx % 4 == 0, false);
    let layer = negation_layer(&mut rng, &spec);
    for e in negation_exprs(&layer) {
        walkgen::steer(&mut rng, &mut spec, &e, 3);
    }
    let cont = container(ctx, idx);
    let root = cont.join("p").join("q").join("root");
    let cwd = PathBuf::from(&ctx.scratch);
    let use_glob = idx % 3 == 0;
    let gexpr = if use_glob { Some(walkgen::walk_glob(&mut rng, &spec)) } else { None };
    // Round 9 (C03-J): a glob with an invariant prefix, negated by a pattern that names a
    // directory beneath the prefix *without* the prefix (`src/**` not `tests/**` over
    // `src/tests/..`). The negation is matched against the path relative to the directory given
    // to the walk, so it must leave `src/tests` alone.
    let (gexpr, layer) = {
        let nested: Vec<(String, String)> = spec
            .nodes
            .iter()
            .filter(|n| n.kind == Kind::Dir && n.rel.contains('/'))
            .filter(|n| spec.nodes.iter().any(|m| fsmodel::is_strictly_beneath(&m.rel, &n.rel)))
            .map(|n| {
                let cut = n.rel.rfind('/').unwrap();
                (n.rel[..cut].to_string(), n.rel[cut + 1..].to_string())
            })
            .collect();
        if idx % 9 == 3 && !nested.is_empty() {
            let (d, c) = rng.pick(&nested).clone();
            let tail = rng.pick_str(&["**", "**/*", "**/*.*"]);
            let neg = match rng.below(3) {
                0 => format!("{}/**", wax::escape(&c)),
                1 => format!("{{{}/**,zz}}", wax::escape(&c)),
                _ => format!("{}/**/*", wax::escape(&c)),
            };
            rpt.bucket("negation:names-a-directory-beneath-the-prefix-without-the-prefix");
            (Some(format!("{}/{}", wax::escape(&d), tail)), LayerSpec::NotText(neg))
        }
        else {
            (gexpr, layer)
        }
    };
    ctx.begin(idx, &format!("walk {:?} not {:?}", gexpr, describe_layer(&layer).to_string()));
    let glob = match &gexpr {
        Some(e) => match Glob::new(e) {
            Ok(g) => Some(g),
            Err(_) => return,
        },
        None => None,
    };
    if !spec.raw.is_empty() {
        rpt.bucket("trees:with-names-that-are-not-utf8");
    }
    let _built = match BuiltTree::build(&cont, &spec) {
        Ok(b) => b,
        Err(_) => return,
    };
    let bases = walkgen::base_spellings(&root, &cwd);
    let base = rng.pick(&bases).clone();
    let behaviour = WalkBehavior {
        depth: DepthBehavior::Unbounded,
        link: if rng.chance(1, 4) { LinkBehavior::ReadTarget } else { LinkBehavior::ReadFile },
    };
    let stack = match walksim::realize(std::slice::from_ref(&layer), &root) {
        Some(s) => s,
        None => return,
    };
    let bare = match guarded(|| walkrun::run(&base.path, glob.as_ref(), behaviour, &[])) {
        Some(o) => o,
        None => return,
    };
    let negated = match guarded(|| walkrun::run(&base.path, glob.as_ref(), behaviour, &stack.rts)) {
        Some(o) => o,
        None => return,
    };
    if negated.error.is_some() {
        return;
    }
    let (is_match, matches_exhaustive) = match &stack.models[0] {
        LayerModel::Not { is_match, matches_exhaustive, .. } => (is_match, matches_exhaustive),
        _ => return,
    };
    let mut expected = Vec::new();
    let mut discarded = 0;
    for it in bare.items.iter().filter(|i| !i.is_err) {
        let rel = it.relative.to_string_lossy().to_string();
        if is_match(&rel) {
            discarded += 1;
        }
        else if let Some(p) = &it.path {
            expected.push(p.clone());
        }
    }
    let exp = multiset(expected.into_iter());
    let got = ok_paths(&negated.items);
    rpt.evaluations += 1;
    let cancels = negated.events.iter().filter(|e| matches!(e, VerifEvent::Cancel { effective: true })).count()
        - bare.events.iter().filter(|e| matches!(e, VerifEvent::Cancel { effective: true })).count().min(
            negated.events.iter().filter(|e| matches!(e, VerifEvent::Cancel { effective: true })).count(),
        );
    rpt.bucket(match &layer {
        LayerSpec::NotText(_) => "negation:text",
        LayerSpec::NotGlob(_) => "negation:compiled",
        _ => "negation:any",
    });
    rpt.bucket(if use_glob { "underlying:glob-walk" } else { "underlying:path-walk" });
    if cancels > 0 {
        rpt.bucket("walks-with-tree-discards");
        rpt.bucket_n("tree-discards-observed", cancels as u64);
    }
    let (missing, extra) = diff(&exp, &got);
    if !missing.is_empty() || !extra.is_empty() {
        // The listed findings are consequences of false "always exhaustive" verdicts: entries are
        // lost beneath a directory that an alternative judged Always (public API) matches. Only
        // that is attributed: every missing entry must have such an ancestor (the walk root
        // included), and nothing may be kept that should have been discarded.
        let explained = extra.is_empty()
            && missing.iter().all(|m| {
                bare.items.iter().find(|i| i.path.as_ref().map(|p| p.components().collect::<PathBuf>().to_string_lossy().to_string()).as_ref() == Some(m)).map_or(false, |i| {
                    let rel = i.relative.to_string_lossy().to_string();
                    let comps: Vec<&str> = rel.split('/').filter(|c| !c.is_empty() && *c != ".").collect();
                    (0..comps.len()).any(|n| matches_exhaustive(&comps[..n].join("/")))
                })
            });
        let key = if !explained {
            None
        }
        else {
            negation_exprs(&layer)
                .iter()
                .filter_map(|e| parse::parse(e).ok())
                .find_map(|a| c09_key(Some(&a)))
                .or_else(|| {
                    // Discarding the walk root because an alternative judged Always matches the
                    // empty path.
                    if matches_exhaustive("") {
                        Some("matches-empty-path-but-not-its-children")
                    }
                    else {
                        None
                    }
                })
        };
        rpt.disagreement(
            &ctx.known,
            if !missing.is_empty() { "negated-walk-loses-entries-that-do-not-match-the-negation" } else { "negated-walk-keeps-entries-that-match-the-negation" },
            key,
            json!({"walk": gexpr, "negation": describe_layer(&layer), "base": base.label, "behaviour": behaviour_json(&behaviour), "missing": short(&missing), "extra": short(&extra), "tree": describe_tree(&spec)}),
        );
    }
    if discarded > 0 && !exp.is_empty() {
        rpt.nontrivial.insert(hash_str(&format!("{:?}|{}|{:?}", gexpr, describe_layer(&layer), describe_tree(&spec))));
    }
    rpt.sample(json!({"walk": gexpr, "negation": describe_layer(&layer), "entries": bare.items.len(), "discarded": discarded, "tree_discards": cancels}));
}

/// String-level tree-discard soundness (hook H3): below a candidate the negation discards as a
/// tree, every descendant must match the negation.
fn c03_strings(expr: &str, idx: usize, ctx: &Ctx, rpt: &mut Report) {
    let mut rng = Rng::derive(ctx.seed, "C03s", idx as u64);
    let case = match case::Case::new(expr, &mut rng, &PathBudget::quick()) {
        Some(c) => c,
        None => return,
    };
    let spec = LayerSpec::NotText(expr.to_string());
    let stack = match walksim::realize(std::slice::from_ref(&spec), Path::new("/")) {
        Some(s) => s,
        None => return,
    };
    let (is_match, discards_tree) = match &stack.models[0] {
        LayerModel::Not { is_match, discards_tree, .. } => (is_match, discards_tree),
        _ => return,
    };
    let names = ["x", "a", ".k", "金", "keep.txt", "b"];
    let mut any_tree = false;
    for d in case.paths.iter().filter(|p| gpath::is_canonical(p) && !p.starts_with('/')) {
        if !discards_tree(d) {
            continue;
        }
        any_tree = true;
        for _ in 0..4 {
            let mut x = d.clone();
            for _ in 0..rng.range(1, 3) {
                if !x.is_empty() {
                    x.push('/');
                }
                x.push_str(rng.pick_str(&names));
            }
            rpt.evaluations += 1;
            rpt.bucket("string-level:descendants-of-tree-discards-checked");
            if !is_match(&x) {
                let key = if d.is_empty() {
                    Some("matches-empty-path-but-not-its-children")
                }
                else {
                    case.ast.as_ref().and_then(|a| c09_key(Some(a)))
                };
                rpt.disagreement(
                    &ctx.known,
                    "tree-discard-would-lose-a-descendant-that-does-not-match-the-negation",
                    key,
                    json!({"negation": clip(expr), "discarded_directory": clip(d), "unmatched_descendant": clip(&x)}),
                );
                break;
            }
        }
    }
    if any_tree {
        rpt.bucket("string-level:negations-with-tree-discards");
    }
}

// ------------------------------------------------------------------------------------------
// C13 / C16
// ------------------------------------------------------------------------------------------

struct StackCase {
    spec: TreeSpec,
    gexpr: Option<String>,
    layers: Vec<LayerSpec>,
    behaviour: WalkBehavior,
    /// Depth window denoted by the behaviour, measured from the base.
    window: (usize, Option<usize>),
}

fn stack_case(rng: &mut Rng, idx: usize, max_layers: usize) -> StackCase {
    let mut spec = walkgen::tree(rng, 28, idx % 3 == 0, false);
    let n = rng.range(1, max_layers);
    let layers: Vec<LayerSpec> = (0..n).map(|_| walkgen::layer(rng, &spec)).collect();
    for l in &layers {
        for e in negation_exprs(l) {
            walkgen::steer(rng, &mut spec, &e, 2);
        }
    }
    // (One glob walk in five walks the *empty* glob — what `partition_or_empty` hands back for an
    // invariant glob: it matches the walked directory only, and everything else must still reach
    // the layers as residue; round 9, C16-J.)
    let mut gexpr = if idx % 15 == 1 { Some(String::new()) } else if idx % 3 == 1 { Some(walkgen::walk_glob(rng, &spec)) } else { None };
    // One case in four runs under a depth behaviour; most of those are glob walks with an
    // invariant prefix (the depth bounds are translated by the prefix length).
    let (depth, window) = if idx % 4 == 3 {
        let mut prefix_len = 0;
        let dirs = spec.dirs();
        if !dirs.is_empty() && rng.chance(2, 3) {
            let d = rng.pick(&dirs).clone();
            prefix_len = d.split('/').count();
            let tail = *rng.pick(&["**", "**/*", "*", "*/*", "**/*.rs", "*/**"]);
            gexpr = Some(format!("{}/{}", wax::escape(&d), tail));
            spec.plant_path(&format!("{}/zz/zz/zz/leaf", d), false);
            spec.plant_path(&format!("{}/zz/side", d), false);
        }
        let mut chosen = None;
        if prefix_len > 0 && rng.chance(1, 2) {
            // Maximum just past the prefix (the band in which a directory still has children
            // within the bound), with something deep beneath the prefix directory.
            let max = prefix_len + rng.range(1, 3);
            let min = rng.below(prefix_len + 2);
            chosen = Some(if min == 0 || rng.chance(1, 2) {
                (DepthBehavior::Max(wax::walk::DepthMax(max)), (0, Some(max)))
            }
            else {
                (wax::walk::DepthMinMax::from_depths_or_max(min.min(max), max), (min.min(max), Some(max)))
            });
        }
        for _ in 0..8 {
            if chosen.is_some() {
                break;
            }
            let (d, w, _) = walkgen::depth_behaviour(rng, 5);
            // (Mostly windows that reach the prefix; one in six may end before it.)
            if w.1.map_or(true, |m| m >= prefix_len) || rng.chance(1, 6) {
                chosen = Some((d, w));
                break;
            }
        }
        chosen.unwrap_or((DepthBehavior::Unbounded, (0, None)))
    }
    else {
        (DepthBehavior::Unbounded, (0, None))
    };
    let behaviour = WalkBehavior {
        depth,
        link: if idx % 3 == 0 && rng.chance(1, 2) { LinkBehavior::ReadTarget } else { LinkBehavior::ReadFile },
    };
    // Under link following, half of the stacks get a layer that discards one of the links itself
    // as a tree (an exhaustive negation naming it): a followed link to a directory is a directory
    // to the walk, and discarding it must keep everything beneath it away from every layer and
    // from the consumer (rounds 7 and 8: C13-H, C16-I).
    let mut layers = layers;
    if behaviour.link == LinkBehavior::ReadTarget && layers.len() < max_layers && rng.chance(1, 2) {
        let links: Vec<String> = spec
            .nodes
            .iter()
            .filter(|n| matches!(n.kind, Kind::Link(_)))
            .map(|n| n.rel.rsplit('/').next().unwrap_or("").to_string())
            .filter(|n| !n.is_empty())
            .collect();
        if !links.is_empty() {
            let name: &String = rng.pick(&links);
            let at = rng.below(layers.len() + 1);
            layers.insert(at, LayerSpec::NotText(format!("**/{}/**", wax::escape(name))));
        }
    }
    StackCase {
        spec,
        gexpr,
        layers,
        behaviour,
        window,
    }
}

struct Ran {
    obs: walkrun::Observed,
    calls: Vec<Option<Vec<PathBuf>>>,
    sim: walksim::Sim,
    start: PathBuf,
    prefix_len: usize,
}

fn run_stack(case: &StackCase, layers: &[LayerSpec], root: &Path, base: &Path, glob: Option<&Glob>) -> Option<Ran> {
    let stack = walksim::realize(layers, root)?;
    let obs = guarded(|| walkrun::run(base, glob, case.behaviour, &stack.rts))?;
    if obs.error.is_some() {
        return None;
    }
    let calls: Vec<Option<Vec<PathBuf>>> = stack.logs.iter().map(|l| l.as_ref().map(|l| l.borrow().clone())).collect();
    let (start, gm) = match glob {
        Some(g) => {
            let (start, _pivot) = g.verif_walk_anchor(base.to_path_buf());
            let rooted = guarded(|| g.has_root()) == Some(When::Always);
            let prefix: Vec<String> = if rooted {
                start
                    .components()
                    .filter_map(|c| match c {
                        std::path::Component::Normal(n) => Some(n.to_string_lossy().to_string()),
                        _ => None,
                    })
                    .collect()
            }
            else {
                rel_of(&start, base)
                    .map(|r| if r.is_empty() { Vec::new() } else { r.split('/').map(|s| s.to_string()).collect() })
                    .unwrap_or_default()
            };
            (
                start,
                Some(GlobModel {
                    glob: g,
                    components: compile_components(g),
                    prefix,
                    rooted,
                }),
            )
        },
        None => (base.to_path_buf(), None),
    };
    let prefix_len = gm.as_ref().map_or(0, |g| g.prefix.len());
    if gm.as_ref().map_or(false, |g| g.rooted) && case.window != (0, None) {
        // Rooted glob walks are only simulated without depth bounds.
        return None;
    }
    if case.window.1.map_or(false, |m| m < prefix_len) {
        // A maximum smaller than the prefix admits nothing at all (repaired by 0234b3a): nothing
        // is read, fed or yielded.
        let sim = walksim::simulate(&[], gm.as_ref(), &stack.models, root, case.window);
        return Some(Ran { obs, calls, sim, start, prefix_len });
    }
    let model = model_walk(&start, follow_of(&case.behaviour));
    let sim = walksim::simulate(&model.entries, gm.as_ref(), &stack.models, root, case.window);
    Some(Ran { obs, calls, sim, start, prefix_len })
}

fn stack_witness(case: &StackCase, layers: &[LayerSpec]) -> Value {
    json!({"walk": case.gexpr, "layers": layers.iter().map(describe_layer).collect::<Vec<_>>(), "behaviour": behaviour_json(&case.behaviour), "tree": describe_tree(&case.spec)})
}

fn c13(idx: usize, ctx: &Ctx, rpt: &mut Report) {
    let mut rng = Rng::derive(ctx.seed, "C13", idx as u64);
    let mut case = stack_case(&mut rng, idx, 3);
    // A pass-through observer placed last.
    case.layers.push(LayerSpec::Filter { seed: 0, mode: 0 });
    let cont = container(ctx, idx);
    let root = cont.join("p").join("q").join("root");
    // One unbounded glob walk in four is rooted: the same glob behind the escaped absolute path of
    // the tree root (the glob replaces the base directory).
    if case.window == (0, None) && rng.chance(1, 4) {
        if let Some(e) = &case.gexpr {
            // (Not with `.`/`..` components: they are native path semantics, see C02.)
            if !e.is_empty() && !e.starts_with('/') && Glob::new(e).map_or(false, |g| !g.has_semantic_literals()) && !e.split('/').any(|c| c == "." || c == "..") {
                case.gexpr = Some(format!("{}/{}", wax::escape(&root.to_string_lossy()), e));
            }
        }
    }
    ctx.begin(idx, &stack_witness(&case, &case.layers).to_string());
    let glob = match &case.gexpr {
        Some(e) => match Glob::new(e) {
            Ok(g) => Some(g.into_owned()),
            Err(_) => return,
        },
        None => None,
    };
    if glob.as_ref().map_or(false, |g| guarded(|| g.has_root()) == Some(When::Always)) {
        rpt.bucket("walk:rooted-glob");
    }
    if !case.spec.raw.is_empty() {
        rpt.bucket("trees:with-names-that-are-not-utf8");
    }
    let _built = match BuiltTree::build(&cont, &case.spec) {
        Ok(b) => b,
        Err(_) => return,
    };
    // Base: the root, or a symbolic link to it.
    let linked_base = idx % 7 == 0;
    let base = if linked_base {
        let l = cont.join("p").join("q").join("base-link");
        let _ = std::os::unix::fs::symlink("root", &l);
        l
    }
    else {
        root.clone()
    };
    let ran = match run_stack(&case, &case.layers, &root, &base, glob.as_ref()) {
        Some(r) => r,
        None => return,
    };
    rpt.evaluations += 1;
    let wit = || stack_witness(&case, &case.layers);
    if let Some(c) = ran.sim.tree_decision_mismatches.first() {
        rpt.disagreement(
            &ctx.known,
            "negation-tree-discard-decision-differs-from-matching-an-exhaustive-alternative",
            None,
            json!({"case": wit(), "candidate": c}),
        );
        return;
    }
    // A glob discards a directory as a tree "because a component cannot match it": a directory
    // beneath which the glob itself matches an entry was not one of those.
    if let Some((d, e)) = ran.sim.matches_beneath_glob_discards.first() {
        rpt.disagreement(
            &ctx.known,
            "glob-walk-discards-a-directory-beneath-which-the-glob-matches",
            None,
            json!({"case": wit(), "discarded": d, "matching_entry": e}),
        );
        return;
    }
    if !ran.sim.td_by_glob.is_empty() {
        rpt.bucket("glob-discards-compared-with-the-complete-program");
    }
    // (a) Nothing beneath an effectively cancelled directory is read afterwards.
    let mut current: Option<(PathBuf, bool)> = None;
    let mut cancelled: Vec<PathBuf> = Vec::new();
    let mut yields: Vec<PathBuf> = Vec::new();
    for ev in &ran.obs.events {
        match ev {
            VerifEvent::Yield { path, is_dir, is_err, .. } => {
                if let Some(p) = path {
                    if !*is_err {
                        yields.push(p.clone());
                    }
                    if let Some(c) = cancelled.iter().find(|c| p.starts_with(c) && p != *c) {
                        rpt.disagreement(
                            &ctx.known,
                            "entry-read-beneath-a-discarded-tree",
                            None,
                            json!({"case": wit(), "discarded": c.to_string_lossy(), "read": p.to_string_lossy()}),
                        );
                        return;
                    }
                    current = Some((p.clone(), *is_dir));
                }
            },
            VerifEvent::Cancel { effective } => {
                if *effective {
                    if let Some((p, _)) = &current {
                        cancelled.push(p.clone());
                    }
                    rpt.bucket("effective-cancels");
                }
                else {
                    rpt.bucket("ineffective-cancels(non-directory or repeated)");
                }
            },
            VerifEvent::End => {},
        }
    }
    // (b) Conservation: what was read is exactly what is not beneath a discarded tree.
    // (Entries shallower than a minimum depth are read but not produced by the traversal.)
    let expected_read = multiset(
        ran.sim
            .read
            .iter()
            .filter(|e| ran.prefix_len + e.depth >= case.window.0)
            .map(|e| e.path.clone()),
    );
    let got_read = multiset(yields.into_iter());
    let (missing, extra) = diff(&expected_read, &got_read);
    if !missing.is_empty() || !extra.is_empty() {
        rpt.disagreement(
            &ctx.known,
            if !missing.is_empty() { "entries-skipped-that-are-not-beneath-a-discarded-tree" } else { "entries-read-beneath-a-tree-that-should-be-discarded" },
            None,
            json!({"case": wit(), "linked_base": linked_base, "skipped": short(&missing), "unexpectedly_read": short(&extra), "discarded_trees": ran.sim.td.iter().take(6).collect::<Vec<_>>()}),
        );
        return;
    }
    // (c) The observer placed last sees exactly the fed entries, once each.
    if let Some(Some(seen)) = ran.calls.last() {
        let exp = multiset(ran.sim.fed.iter().map(|e| e.path.clone()));
        let got = multiset(seen.iter().cloned());
        let (missing, extra) = diff(&exp, &got);
        if !missing.is_empty() || !extra.is_empty() {
            rpt.disagreement(
                &ctx.known,
                "downstream-filter-does-not-see-exactly-the-entries-outside-discarded-trees",
                None,
                json!({"case": wit(), "not_seen": short(&missing), "seen_unexpectedly_or_twice": short(&extra)}),
            );
            return;
        }
        rpt.bucket_n("observer-calls", seen.len() as u64);
    }
    rpt.bucket_n("events-observed", ran.obs.events.len() as u64);
    if walkrun::syscall_markers_enabled() {
        // Expectations for the independent syscall-level monitor (strace tier).
        let discarded: Vec<String> = ran
            .sim
            .td
            .iter()
            .map(|d| if d.is_empty() { ran.start.clone() } else { ran.start.join(d) })
            .map(|p| p.to_string_lossy().to_string())
            .collect();
        let read_dirs: Vec<String> = ran
            .sim
            .read
            .iter()
            .filter(|e| e.descends && !ran.sim.td.contains(&e.rel) && case.window.1.map_or(true, |m| ran.prefix_len + e.depth < m))
            .map(|e| e.path.to_string_lossy().to_string())
            .collect();
        let line = json!({"pid": std::process::id(), "seq": walkrun::last_walk_seq(), "case_index": idx, "discarded": discarded, "read_dirs": read_dirs});
        use std::io::Write;
        if let Ok(mut f) = std::fs::OpenOptions::new().create(true).append(true).open(Path::new(&ctx.scratch).join("syscall-expectations.jsonl")) {
            let _ = writeln!(f, "{}", line);
        }
    }
    if ran.sim.tree_verdicts_on_non_directories > 0 {
        rpt.bucket("tree-verdict-on-a-non-directory");
    }
    if linked_base {
        rpt.bucket("base-is-a-link");
    }
    if case.window != (0, None) {
        rpt.bucket("depth-bounded-walks");
        if !ran.sim.td.is_empty() {
            rpt.bucket("depth-bounded-walks-with-discarded-trees");
        }
    }
    if !ran.sim.td.is_empty() {
        rpt.bucket("stacks-with-discarded-trees");
        let has_surviving_sibling = ran.sim.td.iter().any(|d| {
            let parent = d.rsplit_once('/').map_or("", |p| p.0);
            ran.sim.read.iter().any(|e| e.rel != *d && e.rel.rsplit_once('/').map_or("", |p| p.0) == parent && !e.rel.is_empty())
        });
        if has_surviving_sibling {
            rpt.nontrivial.insert(hash_str(&wit().to_string()));
        }
    }
    rpt.sample(json!({"layers": case.layers.iter().map(describe_layer).collect::<Vec<_>>(), "walk": case.gexpr, "read": ran.sim.read.len(), "fed": ran.sim.fed.len(), "discarded_trees": ran.sim.td.len(), "start": ran.start.to_string_lossy().len()}));
}

fn permutations(n: usize) -> Vec<Vec<usize>> {
    fn go(cur: &mut Vec<usize>, used: &mut Vec<bool>, out: &mut Vec<Vec<usize>>) {
        if cur.len() == used.len() {
            out.push(cur.clone());
            return;
        }
        for i in 0..used.len() {
            if !used[i] {
                used[i] = true;
                cur.push(i);
                go(cur, used, out);
                cur.pop();
                used[i] = false;
            }
        }
    }
    let mut out = Vec::new();
    go(&mut Vec::new(), &mut vec![false; n], &mut out);
    out
}

fn c16(idx: usize, ctx: &Ctx, rpt: &mut Report) {
    let mut rng = Rng::derive(ctx.seed, "C16", idx as u64);
    let case = stack_case(&mut rng, idx, 4);
    let cont = container(ctx, idx);
    let root = cont.join("p").join("q").join("root");
    ctx.begin(idx, &stack_witness(&case, &case.layers).to_string());
    let glob = match &case.gexpr {
        Some(e) => match Glob::new(e) {
            Ok(g) => Some(g.into_owned()),
            Err(_) => return,
        },
        None => None,
    };
    if !case.spec.raw.is_empty() {
        rpt.bucket("trees:with-names-that-are-not-utf8");
    }
    let _built = match BuiltTree::build(&cont, &case.spec) {
        Ok(b) => b,
        Err(_) => return,
    };
    let n = case.layers.len();
    let mut perms = permutations(n);
    if perms.len() > 6 {
        rng.shuffle(&mut perms[1..]);
        perms.truncate(6);
    }
    let mut reference: Option<BTreeMap<PathBuf, usize>> = None;
    let mut any_discard = false;
    for perm in &perms {
        let layers: Vec<LayerSpec> = perm.iter().map(|i| case.layers[*i].clone()).collect();
        let ran = match run_stack(&case, &layers, &root, &root, glob.as_ref()) {
            Some(r) => r,
            None => return,
        };
        rpt.evaluations += 1;
        rpt.bucket(&format!("stack-length:{}", n));
        let got = ok_paths(&ran.obs.items);
        let exp = multiset(ran.sim.yielded.iter().map(|e| e.path.clone()));
        let wit = || stack_witness(&case, &layers);
        let (missing, extra) = diff(&exp, &got);
        if !missing.is_empty() || !extra.is_empty() {
            rpt.disagreement(
                &ctx.known,
                if !missing.is_empty() { "stack-loses-entries-that-every-filter-keeps" } else { "stack-yields-entries-that-some-filter-discards" },
                None,
                json!({"case": wit(), "missing": short(&missing), "extra": short(&extra), "discarded_trees": ran.sim.td.iter().take(6).collect::<Vec<_>>()}),
            );
            return;
        }
        // Every filter_entry layer observes exactly the fed entries, once each.
        let fed = multiset(ran.sim.fed.iter().map(|e| e.path.clone()));
        for (k, calls) in ran.calls.iter().enumerate() {
            if let Some(calls) = calls {
                let seen = multiset(calls.iter().cloned());
                let (missing, extra) = diff(&fed, &seen);
                rpt.bucket_n("closure-calls", calls.len() as u64);
                if !missing.is_empty() || !extra.is_empty() {
                    rpt.disagreement(
                        &ctx.known,
                        "filter-does-not-observe-every-entry-outside-discarded-trees-exactly-once",
                        None,
                        json!({"case": wit(), "layer_position": k, "not_seen": short(&missing), "seen_unexpectedly_or_twice": short(&extra)}),
                    );
                    return;
                }
            }
        }
        // Order independence.
        match &reference {
            None => reference = Some(got),
            Some(r) => {
                let (missing, extra) = diff(r, &got);
                if !missing.is_empty() || !extra.is_empty() {
                    rpt.disagreement(
                        &ctx.known,
                        "result-depends-on-the-order-of-the-filters",
                        None,
                        json!({"case": wit(), "first_order": case.layers.iter().map(describe_layer).collect::<Vec<_>>(), "only_in_first_order": short(&missing), "only_in_this_order": short(&extra)}),
                    );
                    return;
                }
                rpt.bucket("permutations-compared");
            },
        }
        if !ran.sim.td.is_empty() || ran.sim.fed.len() > ran.sim.yielded.len() {
            any_discard = true;
        }
        if ran.sim.fed.iter().filter(|e| !ran.sim.yielded.iter().any(|y| y.rel == e.rel)).count() > 0 && n >= 2 {
            rpt.bucket("stacks-where-several-layers-see-discarded-entries");
        }
    }
    if any_discard && n >= 2 {
        rpt.nontrivial.insert(hash_str(&stack_witness(&case, &case.layers).to_string()));
    }
    rpt.sample(json!({"layers": case.layers.iter().map(describe_layer).collect::<Vec<_>>(), "walk": case.gexpr, "permutations": perms.len()}));
}

// ------------------------------------------------------------------------------------------
// C14
// ------------------------------------------------------------------------------------------

/// Rooted globs whose invariant prefix is only the root, walked at most one level deep from the
/// file system root.
fn c14_root_walk(idx: usize, ctx: &Ctx, rpt: &mut Report) {
    use wax::walk::DepthMax;
    let mut rng = Rng::derive(ctx.seed, "C14-root", idx as u64);
    let expr = *rng.pick(&["/**", "/", "/*", "/**/*", "/?*", "/{tmp,usr,etc}", "/<*/:0,1>*", "/t*"]);
    let max = rng.below(2);
    ctx.begin(idx, &format!("walk {} from the file system root, DepthMax({})", expr, max));
    let glob = match Glob::new(expr) {
        Ok(g) => g,
        Err(_) => return,
    };
    let behaviour = WalkBehavior {
        depth: DepthBehavior::Max(DepthMax(max)),
        link: LinkBehavior::ReadFile,
    };
    let base = PathBuf::from(*rng.pick(&["/nonexistent-base", ".", "/tmp", ""]));
    let obs = match guarded(|| walkrun::run(&base, Some(&glob), behaviour, &[])) {
        Some(o) => o,
        None => return,
    };
    rpt.bucket("glob:rooted-at-the-file-system-root");
    let mut n = 0;
    for it in obs.items.iter().filter(|i| !i.is_err) {
        let path = match &it.path {
            Some(p) => p,
            None => continue,
        };
        n += 1;
        rpt.evaluations += 1;
        let relative = it.relative.to_string_lossy().to_string();
        let mut problems: Vec<&'static str> = Vec::new();
        if it.root.join(&it.relative) != *path {
            problems.push("root-joined-with-relative-is-not-the-path");
        }
        if it.depth != it.relative.components().count() {
            problems.push("depth-is-not-the-component-count-of-the-relative-segment");
        }
        if it.matched.as_deref() != Some(relative.as_str()) {
            problems.push("matched-text-is-not-the-relative-segment");
        }
        if guarded(|| glob.is_match(it.relative.as_path())) != Some(true) {
            problems.push("glob-does-not-match-the-relative-segment");
        }
        if it.candidate != it.matched {
            problems.push("candidate-path-is-not-the-matched-text");
        }
        if !it.root.as_os_str().is_empty() || it.relative != *path {
            problems.push("rooted-glob-root-segment-not-empty");
        }
        if let Some(first) = problems.first() {
            rpt.disagreement(
                &ctx.known,
                first,
                None,
                json!({"problems": problems, "case": {"glob": expr, "base": base.to_string_lossy(), "behaviour": behaviour_json(&behaviour), "entry": {"path": path.to_string_lossy(), "root": it.root.to_string_lossy(), "relative": relative, "depth": it.depth, "matched": it.matched}}}),
            );
            break;
        }
    }
    if n > 0 {
        rpt.nontrivial.insert(hash_str(&format!("rootwalk|{}|{}|{}", expr, max, base.display())));
        rpt.bucket_n("entries-checked", n);
    }
}

fn c14(idx: usize, ctx: &Ctx, rpt: &mut Report) {
    if idx % 40 == 7 {
        c14_root_walk(idx, ctx, rpt);
        return;
    }
    let mut rng = Rng::derive(ctx.seed, "C14", idx as u64);
    let mut spec = walkgen::tree(&mut rng, 26, idx % 4 == 0, false);
    let cont = container(ctx, idx);
    let root = cont.join("p").join("q").join("root");
    let cwd = PathBuf::from(&ctx.scratch);
    let rooted = idx % 5 == 4;
    // Prefix of 0..3 existing directory components.
    let dirs = spec.dirs();
    let prefix = if !dirs.is_empty() && idx % 2 == 0 { rng.pick(&dirs).clone() } else { String::new() };
    let g = walkgen::walk_glob(&mut rng, &spec);
    let expr = if rooted {
        if g.is_empty() {
            return;
        }
        format!("{}/{}", wax::escape(&root.to_string_lossy()), g)
    }
    else if prefix.is_empty() || g.is_empty() {
        g.clone()
    }
    else {
        format!("{}/{}", wax::escape(&prefix), g)
    };
    walkgen::steer(&mut rng, &mut spec, &g, 3);
    // From the empty base a glob may begin with the current-directory component (`./a/*`): the
    // joined root keeps the leading `.`, so such a glob does yield entries there.
    let dot_led = !rooted && idx % 11 == 3 && !expr.is_empty() && rng.chance(1, 2);
    let expr = if dot_led { format!("./{}", expr) } else { expr };
    // Round 7 (C14-H): globs led by parent-directory components, walked from a directory inside
    // the tree. The relative segment then begins with `..` components, which count like any other
    // component and which the walk must neither resolve away nor leave out of the depth.
    let dotdot_base: Option<PathBuf> = if !rooted && !dot_led && idx % 13 == 5 && !g.is_empty() && !dirs.is_empty() {
        Some(root.join(rng.pick(&dirs)))
    }
    else {
        None
    };
    let expr = match &dotdot_base {
        Some(b) => {
            let children: Vec<String> = spec
                .nodes
                .iter()
                .filter(|n| n.kind == Kind::Dir && root.join(&n.rel).parent() == Some(b.as_path()))
                .map(|n| n.rel.rsplit('/').next().unwrap().to_string())
                .collect();
            let pfx = match rng.below(4) {
                0 | 1 => "..".to_string(),
                2 if b.parent() != Some(root.as_path()) => "../..".to_string(),
                3 if !children.is_empty() => {
                    let c: &String = rng.pick(&children);
                    format!("{}/..", wax::escape(c))
                },
                _ => "..".to_string(),
            };
            format!("{}/{}", pfx, g)
        },
        None => expr,
    };
    ctx.begin(idx, &format!("walk {}", expr));
    let glob = match Glob::new(&expr) {
        Ok(g) => g,
        Err(_) => return,
    };
    if !spec.raw.is_empty() {
        rpt.bucket("trees:with-names-that-are-not-utf8");
    }
    let _built = match BuiltTree::build(&cont, &spec) {
        Ok(b) => b,
        Err(_) => return,
    };
    if dot_led {
        rpt.bucket("glob:led-by-the-current-directory-component(empty base)");
    }
    let mut bases = walkgen::base_spellings(&root, &cwd);
    // The empty base with the working directory inside the tree is exercised by C14 alone.
    let base = if let Some(b) = &dotdot_base {
        walkgen::BaseSpelling {
            label: "inside-tree(glob-led-by-parent-directory-components)",
            path: b.clone(),
        }
    }
    else if !rooted && idx % 11 == 3 {
        walkgen::BaseSpelling {
            label: "empty(cwd=tree)",
            path: PathBuf::new(),
        }
    }
    else {
        bases.swap_remove(rng.below(bases.len()))
    };
    let behaviour = walkgen::behaviours(&mut rng, 4);
    if base.label != "empty(cwd=tree)" && anchor_is_link(&glob, &base.path) {
        rpt.bucket("skipped:walk-starts-at-a-symbolic-link");
        return;
    }
    let restore = if base.label == "empty(cwd=tree)" {
        let old = std::env::current_dir().ok();
        let _ = std::env::set_current_dir(&root);
        old
    }
    else {
        None
    };
    let obs = guarded(|| walkrun::run(&base.path, Some(&glob), behaviour, &[]));
    if let Some(old) = restore {
        let _ = std::env::set_current_dir(old);
    }
    let obs = match obs {
        Some(o) => o,
        None => return,
    };
    rpt.bucket(&format!("base:{}", base.label));
    rpt.bucket(if rooted { "glob:rooted" } else if prefix.is_empty() { "glob:no-prefix" } else { "glob:prefixed" });
    let prefix_len = if prefix.is_empty() { 0 } else { prefix.split('/').count() };
    rpt.bucket(&format!("prefix-length:{}", prefix_len.min(3)));
    let mut n = 0;
    for it in obs.items.iter().filter(|i| !i.is_err) {
        let path = match &it.path {
            Some(p) => p,
            None => continue,
        };
        n += 1;
        rpt.evaluations += 1;
        let relative = it.relative.to_string_lossy().to_string();
        let wit = || json!({"glob": clip(&expr), "base": base.path.to_string_lossy(), "base_spelling": base.label, "behaviour": behaviour_json(&behaviour), "entry": {"path": path.to_string_lossy(), "root": it.root.to_string_lossy(), "relative": relative, "depth": it.depth, "matched": it.matched, "candidate": it.candidate}});
        let mut problems: Vec<&'static str> = Vec::new();
        if it.root.join(&it.relative) != *path {
            problems.push("root-joined-with-relative-is-not-the-path");
        }
        if it.depth != it.relative.components().count() {
            problems.push("depth-is-not-the-component-count-of-the-relative-segment");
        }
        if it.matched.as_deref() != Some(relative.as_str()) {
            problems.push("matched-text-is-not-the-relative-segment");
        }
        if guarded(|| glob.is_match(it.relative.as_path())) != Some(true) {
            problems.push("glob-does-not-match-the-relative-segment");
        }
        if it.candidate != it.matched {
            problems.push("candidate-path-is-not-the-matched-text");
        }
        if rooted {
            if !it.root.as_os_str().is_empty() || it.relative != *path {
                problems.push("rooted-glob-root-segment-not-empty");
            }
        }
        else if it.root != base.path {
            problems.push("root-segment-is-not-the-directory-given-to-the-walk");
        }
        if let Some(first) = problems.first() {
            let key = if rooted && problems.iter().all(|p| *p == "depth-is-not-the-component-count-of-the-relative-segment") && it.depth == it.relative.components().count() + 1 {
                Some("rooted-glob-entry-depth-counts-one-too-many")
            }
            else {
                None
            };
            rpt.disagreement(&ctx.known, first, key, json!({"problems": problems, "case": wit()}));
            break;
        }
    }
    if n > 0 {
        rpt.nontrivial.insert(hash_str(&format!("{}|{}|{:?}", expr, base.label, describe_tree(&spec))));
        rpt.bucket_n("entries-checked", n);
    }
    rpt.sample(json!({"glob": clip(&expr), "base": base.label, "entries": n}));
}

// ------------------------------------------------------------------------------------------
// C15
// ------------------------------------------------------------------------------------------

fn c15(idx: usize, ctx: &Ctx, rpt: &mut Report) {
    let mut rng = Rng::derive(ctx.seed, "C15", idx as u64);
    let mut spec = walkgen::tree(&mut rng, 30, true, false);
    let cont = container(ctx, idx);
    let root = cont.join("p").join("q").join("root");
    let dirs = spec.dirs();
    let prefix = if !dirs.is_empty() && idx % 3 != 0 { rng.pick(&dirs).clone() } else { String::new() };
    let path_walk = idx % 5 == 0;
    let g = if idx % 2 == 0 {
        (*rng.pick(&["**", "**/*", "*", "*/*", "**/a", "**/*.*", "*/**", "", "**", "<b/:0,2>c", "<*/:0,2>*", "<*/:0,1>*.txt", "{a,b/c}", "<*/:1,2>*", "<zz/:0,3>*"])).to_string()
    }
    else {
        walkgen::walk_glob(&mut rng, &spec)
    };
    // Round 7 (C15-H): a maximum that falls exactly on the level of the glob's last component,
    // where directories that the last component rejects (and that therefore are discarded as
    // trees) are interleaved with matching files. Whatever enforces the maximum and whatever
    // cancels the rejected directories must not trip over each other.
    // Round 8 (C15-I): a glob that is invariant text as a whole (its only possible match is the
    // path it spells), with minima around and beyond its own depth.
    let wholly_invariant = !path_walk && idx % 11 == 5 && !spec.nodes.is_empty();
    let g = if wholly_invariant {
        let rel = rng.pick(&spec.nodes).rel.clone();
        match rng.below(3) {
            0 => wax::escape(&rel).to_string(),
            1 => format!("{{{0},{0}}}", wax::escape(&rel)),
            _ => wax::escape(rel.rsplit('/').next().unwrap_or("a")).to_string(),
        }
    }
    else {
        g
    };
    let at_last_component = !path_walk && !wholly_invariant && idx % 7 == 3;
    let g = if at_last_component { (*rng.pick(&["*/*.txt", "*/m*", "?*/*.*", "*.txt", "*/*/*.txt", "{*,*/*}.txt"])).to_string() } else { g };
    let expr = if prefix.is_empty() || g.is_empty() { g.clone() } else { format!("{}/{}", wax::escape(&prefix), g) };
    walkgen::steer(&mut rng, &mut spec, &g, 2);
    let prefix_len = if prefix.is_empty() || g.is_empty() { 0 } else { prefix.split('/').count() };
    let last_level = g.split('/').count();
    if at_last_component {
        let mut parent = if prefix.is_empty() { String::new() } else { format!("{}/", prefix) };
        for l in 1..last_level {
            parent.push_str(&format!("lv{}/", l));
        }
        for k in 0..4 {
            spec.plant_path(&format!("{}m{}.txt", parent, k), false);
            spec.plant_path(&format!("{}n{}b/inner.txt", parent, k), false);
            spec.plant_path(&format!("{}k{}d", parent, k), true);
        }
    }
    if prefix_len > 0 {
        // Something beneath the prefix at every depth a window could cut.
        spec.plant_path(&format!("{}/zz/zz/zz/leaf", prefix), false);
        spec.plant_path(&format!("{}/zz/side", prefix), false);
    }
    let (depth, window, ctor) = if wholly_invariant && rng.chance(3, 4) {
        let own = prefix_len + g.split('/').count();
        let lo = rng.range(own.saturating_sub(1), own + 2);
        match rng.below(3) {
            0 => (wax::walk::DepthMin::from_min_or_unbounded(lo), (lo, None), "DepthMin::from_min_or_unbounded(around an invariant glob)"),
            1 => (wax::walk::DepthMinMax::from_depths_or_max(lo, lo + 3), (lo, Some(lo + 3)), "DepthMinMax::from_depths_or_max(around an invariant glob)"),
            _ => match DepthBehavior::bounded(Some(lo), None) {
                Some(d) => (d, (lo, None), "DepthBehavior::bounded(min,-)(around an invariant glob)"),
                None => (DepthBehavior::Unbounded, (0, None), "unbounded"),
            },
        }
    }
    else if at_last_component && rng.chance(3, 4) {
        let hi = prefix_len + last_level;
        let lo = rng.below(2);
        match rng.below(3) {
            0 => (DepthBehavior::Max(wax::walk::DepthMax(hi)), (0, Some(hi)), "DepthMax(at the last component)"),
            1 => (wax::walk::DepthMinMax::from_depths_or_max(lo, hi), (lo, Some(hi)), "DepthMinMax::from_depths_or_max(at the last component)"),
            _ => match DepthBehavior::bounded(Some(lo), Some(hi)) {
                Some(d) => (d, (lo, Some(hi)), "DepthBehavior::bounded(min,max)(at the last component)"),
                None => (DepthBehavior::Max(wax::walk::DepthMax(hi)), (0, Some(hi)), "DepthMax(at the last component)"),
            },
        }
    }
    else if prefix_len > 0 && rng.chance(1, 3) {
        // Windows steered to the prefix: the bounds fall before, on and just after its length.
        let lo = rng.range(0, prefix_len);
        let hi = rng.range(prefix_len.saturating_sub(1), prefix_len + 2).max(lo);
        match rng.below(3) {
            0 => (wax::walk::DepthMinMax::from_depths_or_max(lo, hi), (lo, Some(hi)), "DepthMinMax::from_depths_or_max(steered)"),
            1 => match DepthBehavior::bounded(Some(lo), Some(hi)) {
                Some(d) => (d, (lo, Some(hi)), "DepthBehavior::bounded(min,max)(steered)"),
                None => (DepthBehavior::Max(wax::walk::DepthMax(hi)), (0, Some(hi)), "DepthMax(steered)"),
            },
            _ => (wax::walk::DepthMin::from_min_or_unbounded(lo), (lo, None), "DepthMin::from_min_or_unbounded(steered)"),
        }
    }
    else {
        walkgen::depth_behaviour(&mut rng, 5)
    };
    let link = if rng.chance(1, 2) { LinkBehavior::ReadTarget } else { LinkBehavior::ReadFile };
    ctx.begin(idx, &format!("walk {} {:?} {:?}", expr, depth, link));
    let glob = if path_walk {
        None
    }
    else {
        match Glob::new(&expr) {
            Ok(g) => Some(g),
            Err(_) => return,
        }
    };
    // One glob walk in six: bounds given relative to the least depth the glob reports
    // (`bounded_at_depth_variance`); the window is the given bounds moved by `depth()`'s lower
    // bound, read through the public query.
    let (depth, window, ctor) = match &glob {
        Some(g) if rng.chance(1, 6) => {
            let a = rng.below(4);
            let b = rng.below(4);
            let (lo, hi) = (a.min(b), a.max(b));
            match guarded(|| {
                let dv = g.depth();
                let least = crate::monitors::group_a::depth_bounds(&dv).0;
                (DepthBehavior::bounded_at_depth_variance(Some(lo), Some(hi), dv), least)
            }) {
                Some((Some(d), least)) => (d, (lo + least, Some(hi + least)), "DepthBehavior::bounded_at_depth_variance"),
                _ => (depth, window, ctor),
            }
        },
        _ => (depth, window, ctor),
    };
    let behaviour = WalkBehavior { depth, link };
    if !spec.raw.is_empty() {
        rpt.bucket("trees:with-names-that-are-not-utf8");
    }
    let _built = match BuiltTree::build(&cont, &spec) {
        Ok(b) => b,
        Err(_) => return,
    };
    let obs = match guarded(|| walkrun::run(&root, glob.as_ref(), behaviour, &[])) {
        Some(o) => o,
        None => return,
    };
    let follow = link == LinkBehavior::ReadTarget;
    // The traversal starts at the base joined with the invariant prefix; ancestors for re-entrant
    // links are those of the traversal.
    let (start, start_prefix): (PathBuf, Vec<String>) = match &glob {
        Some(g) => {
            if anchor_is_link(g, &root) {
                rpt.bucket("skipped:walk-starts-at-a-symbolic-link");
                return;
            }
            let (s, _) = g.verif_walk_anchor(root.clone());
            let pre = rel_of(&s, &root)
                .map(|r| if r.is_empty() { Vec::new() } else { r.split('/').map(|x| x.to_string()).collect() })
                .unwrap_or_default();
            (s, pre)
        },
        None => (root.clone(), Vec::new()),
    };
    let model = model_walk(&start, follow);
    let in_window = |d: usize| d >= window.0 && window.1.map_or(true, |m| d <= m);
    let mut expected = Vec::new();
    let mut optional_start: Option<PathBuf> = None;
    let mut reachable_in_window = 0;
    for e in model.oks() {
        let depth = start_prefix.len() + e.depth;
        if !in_window(depth) {
            continue;
        }
        reachable_in_window += 1;
        let cand = candidate_text(&start_prefix, &e.rel);
        let m = match &glob {
            Some(g) => guarded(|| g.is_match(cand.as_str())) == Some(true),
            None => true,
        };
        if m {
            if cand.is_empty() && glob.is_some() {
                optional_start = Some(e.path.clone());
                continue;
            }
            expected.push(e.path.clone());
        }
    }
    let mut exp = multiset(expected.into_iter());
    let got = ok_paths(&obs.items);
    if let Some(s) = optional_start {
        let n: PathBuf = s.components().collect();
        if got.contains_key(&n) {
            exp.insert(n, 1);
        }
    }
    rpt.evaluations += 1;
    rpt.bucket(&format!("constructor:{}", ctor));
    rpt.bucket(if follow { "link:ReadTarget" } else { "link:ReadFile" });
    let prefix_len = start_prefix.len();
    rpt.bucket(&format!("prefix-length:{}", prefix_len.min(3)));
    if reachable_in_window == 0 {
        rpt.bucket("window-excludes-every-reachable-depth");
    }
    if window.1.map_or(false, |m| m < prefix_len) {
        rpt.bucket("maximum-smaller-than-prefix");
    }
    let wit = || json!({"walk": if path_walk { Value::Null } else { json!(clip(&expr)) }, "behaviour": behaviour_json(&behaviour), "constructor": ctor, "window": [window.0, window.1], "tree": describe_tree(&spec)});
    let (missing, extra) = diff(&exp, &got);
    if !missing.is_empty() || !extra.is_empty() {
        // (The finding once listed here — a maximum smaller than the prefix still yields the prefix
        // directory — was repaired by 0234b3a; nothing is attributed any more.)
        let key: Option<&str> = None;
        rpt.disagreement(
            &ctx.known,
            if !missing.is_empty() { "depth-or-link-behaviour-loses-entries-inside-the-window" } else { "depth-or-link-behaviour-yields-entries-outside-the-window-or-beneath-links" },
            key,
            json!({"case": wit(), "missing": short(&missing), "extra": short(&extra)}),
        );
    }
    // Errors (only when nothing is pruned and the window has no maximum: every fault is reached.
    // A minimum filters entries, not faults — round 9, C15-J — so a re-entrant link above the
    // minimum is still reported).
    let unpruned = glob.as_ref().map_or(true, |g| g.verif_walk_component_patterns().is_empty());
    if unpruned && window.1.is_none() {
        if window.0 > 0 {
            rpt.bucket("link-errors-compared-under-a-minimum-depth");
        }
        let exp_err = multiset(model.errs().map(|e| e.path.clone()));
        let got_err = err_paths(&obs.items);
        rpt.evaluations += 1;
        let (missing, extra) = diff(&exp_err, &got_err);
        if !exp_err.is_empty() {
            rpt.bucket("walks-with-link-errors");
        }
        if !missing.is_empty() || !extra.is_empty() {
            rpt.disagreement(
                &ctx.known,
                "link-errors-differ-from-the-documented-behaviour",
                None,
                json!({"case": wit(), "missing_errors": short(&missing), "unexpected_errors": short(&extra)}),
            );
        }
    }
    // Bounded progress.
    rpt.evaluations += 1;
    if obs.items.len() > model.entries.len() + 1 {
        rpt.disagreement(
            &ctx.known,
            "walk-produces-more-items-than-the-tree-has-entries-and-faults",
            None,
            json!({"case": wit(), "items": obs.items.len(), "model_entries": model.entries.len()}),
        );
    }
    if !exp.is_empty() && (window != (0, None) || follow) {
        rpt.nontrivial.insert(hash_str(&wit().to_string()));
    }
    rpt.sample(json!({"walk": if path_walk { Value::Null } else { json!(clip(&expr)) }, "window": [window.0, window.1], "link": format!("{:?}", link), "expected": exp.len(), "yielded": got.len()}));
}

// ------------------------------------------------------------------------------------------
// C20
// ------------------------------------------------------------------------------------------

/// Fixed family of small trees for fault enumeration.
fn fault_base_tree(k: usize) -> TreeSpec {
    let mut t = TreeSpec::default();
    let shapes: [&[&str]; 4] = [
        &["a/", "a/f1", "a/b/", "a/b/f2", "a/c/", "a/c/f3", "d/", "d/f4", "z"],
        &["a/", "a/b/", "a/b/c/", "a/b/c/f", "a/x", "m/", "m/n", "z/", "z/y"],
        &["f0", "p/", "p/q/", "p/q/r", "p/s", "t/", "t/u/", "t/u/v", "w"],
        &["only/", "only/deep/", "only/deep/er/", "only/deep/er/leaf"],
    ];
    for p in shapes[k % shapes.len()] {
        if let Some(d) = p.strip_suffix('/') {
            t.add(d, Kind::Dir);
        }
        else {
            t.add(p, Kind::File);
        }
    }
    t
}

#[derive(Clone, Debug)]
enum Fault {
    Unreadable(String),
    Dangling(String),
    Reentrant(String),
}

fn fault_sites(t: &TreeSpec) -> Vec<Fault> {
    let mut v = Vec::new();
    for d in t.dirs() {
        v.push(Fault::Unreadable(d.clone()));
        // Names sorting first, in the middle and last among the children.
        for name in ["0link", "mlink", "zzlink"] {
            v.push(Fault::Dangling(format!("{}/{}", d, name)));
            v.push(Fault::Reentrant(format!("{}/{}", d, name)));
        }
    }
    for name in ["0link", "zzlink"] {
        v.push(Fault::Dangling(name.to_string()));
        v.push(Fault::Reentrant(name.to_string()));
    }
    v
}

fn apply_fault(t: &mut TreeSpec, f: &Fault) {
    match f {
        Fault::Unreadable(d) => {
            if let Some(n) = t.nodes.iter_mut().find(|n| n.rel == *d) {
                n.unreadable = true;
            }
        },
        Fault::Dangling(p) => {
            t.add(p, Kind::Link("no-such-target".to_string()));
        },
        Fault::Reentrant(p) => {
            let ups = p.matches('/').count();
            let target = if ups == 0 { ".".to_string() } else { "../".repeat(ups).trim_end_matches('/').to_string() };
            t.add(p, Kind::Link(target));
        },
    }
}

const C20_STACKS: usize = 4;

const C20_DEPTHS: usize = 4;

/// Number of fault pairs enumerated per base tree: a sample in the quick tier, every unordered
/// pair of fault sites in the thorough tier.
fn c20_pairs(s: usize, all_pairs: bool) -> usize {
    if all_pairs {
        s * s.saturating_sub(1) / 2
    }
    else {
        s.min(40)
    }
}

fn c20_case_count(all_pairs: bool) -> usize {
    // Enumerated: trees x (none + singles + pairs) x link modes x stacks x depth kinds.
    let mut n = 0;
    for k in 0..4 {
        let s = fault_sites(&fault_base_tree(k)).len();
        n += (1 + s + c20_pairs(s, all_pairs)) * 2 * C20_STACKS * C20_DEPTHS;
    }
    n
}

fn c20_decode(mut idx: usize, rng: &mut Rng, all_pairs: bool) -> Option<(usize, Vec<Fault>, bool, usize, usize)> {
    for k in 0..4 {
        let t = fault_base_tree(k);
        let sites = fault_sites(&t);
        let s = sites.len();
        let per = (1 + s + c20_pairs(s, all_pairs)) * 2 * C20_STACKS * C20_DEPTHS;
        if idx < per {
            let depth_kind = idx % C20_DEPTHS;
            idx /= C20_DEPTHS;
            let stack = idx % C20_STACKS;
            idx /= C20_STACKS;
            let follow = idx % 2 == 1;
            idx /= 2;
            let faults = if idx == 0 {
                Vec::new()
            }
            else if idx <= s {
                vec![sites[idx - 1].clone()]
            }
            else if all_pairs {
                // The (idx - s - 1)-th unordered pair in lexicographic order.
                let mut r = idx - s - 1;
                let mut a = 0;
                while r >= s - 1 - a {
                    r -= s - 1 - a;
                    a += 1;
                }
                vec![sites[a].clone(), sites[a + 1 + r].clone()]
            }
            else {
                let a = sites[(idx - s - 1) * 7 % s].clone();
                let b = sites[rng.below(s)].clone();
                vec![a, b]
            };
            return Some((k, faults, follow, stack, depth_kind));
        }
        idx -= per;
    }
    None
}

/// Round 8 (C20-I): the fault sits on the path the traversal starts from — the directory given to a
/// path walk, or the base joined with a glob's invariant prefix, is missing, is a link whose target
/// is missing, or (unprivileged) lies beneath a directory that cannot be searched. The walk must
/// produce exactly one error item naming that path, whatever the behaviour and the combinators.
fn c20_root_fault(idx: usize, ctx: &Ctx, rpt: &mut Report) {
    let mut rng = Rng::derive(ctx.seed, "C20-root-fault", idx as u64);
    let is_root = unsafe { libc::geteuid() } == 0;
    let cont = container(ctx, idx);
    let base = cont.join("p").join("q").join("root");
    if std::fs::create_dir_all(base.join("sub").join("inner")).is_err() || std::fs::write(base.join("sub").join("f.txt"), b"x").is_err() {
        rpt.inconclusive("tree-build-failed", json!({"case": "root fault"}));
        return;
    }
    let kind = rng.below(if is_root { 2 } else { 3 });
    let (label, name) = match kind {
        0 => ("missing", "absent"),
        1 => ("link-to-nothing", "dangling"),
        _ => ("beneath-an-unsearchable-directory", "locked/inside"),
    };
    match kind {
        1 => {
            let _ = std::os::unix::fs::symlink("nowhere-at-all", base.join("dangling"));
        },
        2 => {
            use std::os::unix::fs::PermissionsExt;
            let _ = std::fs::create_dir_all(base.join("locked").join("inside"));
            let _ = std::fs::set_permissions(base.join("locked"), std::fs::Permissions::from_mode(0o000));
        },
        _ => {},
    }
    let start = base.join(name);
    let follow = rng.chance(1, 2);
    let depth = match rng.below(3) {
        0 => DepthBehavior::Unbounded,
        1 => DepthBehavior::Max(wax::walk::DepthMax(3)),
        _ => wax::walk::DepthMinMax::from_depths_or_max(0, 4),
    };
    let behaviour = WalkBehavior {
        depth,
        link: if follow { LinkBehavior::ReadTarget } else { LinkBehavior::ReadFile },
    };
    // As a path walk of the faulty path, or as a glob whose invariant prefix leads to it.
    let as_glob = rng.chance(1, 2);
    let glob: Option<Glob<'static>> = if as_glob {
        let tail = rng.pick_str(&["**", "*", "**/*.txt", "*/*"]);
        Glob::new(&format!("{}/{}", name, tail)).ok().map(Glob::into_owned)
    }
    else {
        None
    };
    let layers: Vec<LayerSpec> = match rng.below(3) {
        0 => vec![],
        1 => vec![LayerSpec::NotText("**/z".to_string())],
        _ => vec![LayerSpec::Filter { seed: (idx % 11) as u64, mode: 3 }],
    };
    let stack = match walksim::realize(&layers, &base) {
        Some(s) => s,
        None => return,
    };
    ctx.begin(idx, &format!("walk starting at a faulty path ({}) glob={:?}", label, glob.as_ref().map(|g| g.to_string())));
    let walk_base = if glob.is_some() { base.clone() } else { start.clone() };
    let obs = guarded(|| walkrun::run(&walk_base, glob.as_ref(), behaviour, &stack.rts));
    if kind == 2 {
        use std::os::unix::fs::PermissionsExt;
        let _ = std::fs::set_permissions(base.join("locked"), std::fs::Permissions::from_mode(0o755));
    }
    let obs = match obs {
        Some(o) => o,
        None => return,
    };
    rpt.evaluations += 1;
    rpt.bucket("faults:at-the-path-the-traversal-starts-from");
    rpt.bucket(&format!("root-fault:{}", label));
    let got: Vec<(bool, Option<PathBuf>, usize)> = obs.items.iter().map(|i| (i.is_err, i.path.clone(), i.depth)).collect();
    let expected = vec![(true, Some(start.clone()), 0usize)];
    // (A link to nothing that is read as a file is an ordinary entry, not a fault.)
    let expected_alt = if kind == 1 && !follow && glob.is_none() { Some(vec![(false, Some(start.clone()), 0usize)]) } else { None };
    let depth_free = |v: &Vec<(bool, Option<PathBuf>, usize)>| v.iter().map(|x| (x.0, x.1.clone())).collect::<Vec<_>>();
    let ok = depth_free(&got) == depth_free(&expected) || expected_alt.as_ref().map_or(false, |e| depth_free(&got) == depth_free(e));
    if !ok {
        rpt.disagreement(
            &ctx.known,
            "faults-not-reported-exactly-once-each-naming-the-offending-path",
            None,
            json!({"case": {"start": start.to_string_lossy(), "fault": label, "walk": glob.as_ref().map(|g| g.to_string()), "behaviour": behaviour_json(&behaviour), "layers": layers.iter().map(describe_layer).collect::<Vec<_>>()},
                   "items": got.iter().map(|g| json!([g.0, g.1.as_ref().map(|p| p.to_string_lossy().to_string()), g.2])).collect::<Vec<_>>()}),
        );
        return;
    }
    rpt.nontrivial.insert(hash_str(&format!("root-fault|{}|{}|{:?}|{}", label, as_glob, behaviour_json(&behaviour), layers.len())));
}

fn c20(idx: usize, ctx: &Ctx, rpt: &mut Report, enumerated: usize) {
    if idx >= enumerated && idx % 6 == 1 {
        c20_root_fault(idx, ctx, rpt);
        return;
    }
    let mut rng = Rng::derive(ctx.seed, "C20", idx as u64);
    let is_root = unsafe { libc::geteuid() } == 0;
    let (spec, faults_desc, follow, stack_kind, depth_kind) = if idx < enumerated {
        let (k, faults, follow, stack, depth_kind) = match c20_decode(idx, &mut rng, ctx.tier == Tier::Thorough) {
            Some(x) => x,
            None => return,
        };
        let mut t = fault_base_tree(k);
        for f in &faults {
            apply_fault(&mut t, f);
        }
        (t, format!("{:?}", faults), follow, stack, depth_kind)
    }
    else {
        let t = walkgen::tree(&mut rng, 30, true, true);
        (t, "random".to_string(), rng.chance(1, 2), rng.below(C20_STACKS), rng.below(C20_DEPTHS))
    };
    let has_unreadable = spec.nodes.iter().any(|n| n.unreadable);
    if has_unreadable && is_root {
        rpt.inconclusive("permission-faults-need-an-unprivileged-user", json!({"faults": faults_desc}));
        return;
    }
    let cont = container(ctx, idx);
    let root = cont.join("p").join("q").join("root");
    ctx.begin(idx, &format!("fault walk {} follow={} stack={}", faults_desc, follow, stack_kind));
    if !spec.raw.is_empty() {
        rpt.bucket("trees:with-names-that-are-not-utf8");
    }
    let _built = match BuiltTree::build(&cont, &spec) {
        Ok(b) => b,
        Err(e) => {
            rpt.inconclusive("tree-build-failed", json!({"error": e.to_string()}));
            return;
        },
    };
    // Depth kinds: unbounded, or windows wide enough to contain every fault (so the expected
    // faults do not change): a min-max window and a maximum.
    let (depth, min_depth) = match depth_kind {
        0 => (DepthBehavior::Unbounded, 0usize),
        1 => (wax::walk::DepthMinMax::from_depths_or_max(1, 64), 1usize),
        2 => (DepthBehavior::Max(wax::walk::DepthMax(64)), 0usize),
        // Round 9 (C15-J, C20-J): a minimum *beneath* some of the faults. A minimum depth filters
        // entries, not faults: an unreadable directory or a faulty link above the minimum is
        // still reported.
        _ => (wax::walk::DepthMin::from_min_or_unbounded(2), 2usize),
    };
    rpt.bucket(&format!("depth-kind:{}", depth_kind));
    let behaviour = WalkBehavior {
        depth,
        link: if follow { LinkBehavior::ReadTarget } else { LinkBehavior::ReadFile },
    };
    let layers: Vec<LayerSpec> = match stack_kind {
        0 => vec![],
        1 => vec![LayerSpec::NotText("**/f*".to_string())],
        2 => vec![LayerSpec::Filter {
            seed: (idx % 17) as u64,
            mode: 3,
        }],
        _ => vec![
            LayerSpec::NotText("**/z".to_string()),
            LayerSpec::Filter {
                seed: (idx % 13) as u64,
                mode: 3,
            },
        ],
    };
    let stack = match walksim::realize(&layers, &root) {
        Some(s) => s,
        None => return,
    };
    // One case in five walks a glob with an invariant prefix instead of the path: `<dir>/**` from
    // the tree root, for a readable top-level directory. The traversal then starts at that
    // directory (depths are counted from the tree root, one more than the traversal's own).
    let top_dirs: Vec<String> = spec
        .nodes
        .iter()
        .filter(|n| n.kind == Kind::Dir && !n.rel.contains('/') && !n.unreadable)
        .map(|n| n.rel.clone())
        .collect();
    // Round 7 (C20-H): one more case in five walks a glob of bounded depth made of wildcards
    // only (`*`, `*/*`, `*/?*`, `<dir>/*` ...). Such a glob matches a directory that cannot be read
    // with its *last* component and still reads it, so the fault must be reported; directories
    // that a component program rejects are never read and report nothing (the walk model decides
    // which is which).
    let gwalk: Option<(String, Glob<'static>)> = if idx % 5 == 2 && !top_dirs.is_empty() {
        let d = rng.pick(&top_dirs).clone();
        Glob::new(&format!("{}/**", wax::escape(&d))).ok().map(|g| (d, g.into_owned()))
    }
    else if idx % 5 == 4 {
        if rng.chance(1, 3) && !top_dirs.is_empty() {
            let d = rng.pick(&top_dirs).clone();
            let tail = rng.pick_str(&["*", "*/*", "?*", "*/?*"]);
            Glob::new(&format!("{}/{}", wax::escape(&d), tail)).ok().map(|g| (d, g.into_owned()))
        }
        else {
            let e = rng.pick_str(&["*", "*/*", "*/?*", "?*/*/*", "*/*/*", "{*,*/*}", "<*/:1,2>*"]);
            Glob::new(e).ok().map(|g| (String::new(), g.into_owned()))
        }
    }
    else {
        None
    };
    let glob_text = gwalk.as_ref().map(|x| x.1.to_string());
    let (start, prefix_depth) = match &gwalk {
        Some((d, _)) if !d.is_empty() => (root.join(d), 1usize),
        _ => (root.clone(), 0usize),
    };
    if gwalk.is_some() {
        rpt.bucket(if idx % 5 == 2 { "walk:glob-with-invariant-prefix" } else { "walk:glob-of-bounded-depth" });
    }
    let bare = match guarded(|| walkrun::run(&root, gwalk.as_ref().map(|x| &x.1), behaviour, &[])) {
        Some(o) => o,
        None => return,
    };
    let model = model_walk(&start, follow);
    fn glob_model<'a>(x: &'a (String, Glob<'static>)) -> GlobModel<'a> {
        GlobModel {
            glob: &x.1,
            components: compile_components(&x.1),
            prefix: if x.0.is_empty() { vec![] } else { vec![x.0.clone()] },
            rooted: false,
        }
    }
    // What a glob walk without combinators reads, reports and yields (pruned directories are not
    // read, so faults in and beneath them are not expected).
    let bare_sim = gwalk.as_ref().map(|x| {
        let gm = glob_model(x);
        walksim::simulate(&model.entries, Some(&gm), &[], &root, (min_depth, None))
    });
    rpt.evaluations += 1;
    rpt.bucket(&format!("stack-kind:{}", stack_kind));
    rpt.bucket(if follow { "link:ReadTarget" } else { "link:ReadFile" });
    let wit = || json!({"walk": glob_text, "faults": faults_desc, "behaviour": behaviour_json(&behaviour), "layers": layers.iter().map(describe_layer).collect::<Vec<_>>(), "tree": describe_tree(&spec)});
    // Faults reported exactly.
    let exp_err = match &bare_sim {
        Some(sim) => multiset(sim.errors.iter().map(|e| e.path.clone())),
        None => multiset(model.errs().map(|e| e.path.clone())),
    };
    if let Some(sim) = &bare_sim {
        if sim.errors.iter().any(|e| sim.yielded.iter().any(|y| y.path == e.path)) {
            rpt.bucket("faults:on-a-directory-the-glob-matches");
        }
    }
    let got_err = err_paths(&bare.items);
    let (missing, extra) = diff(&exp_err, &got_err);
    rpt.bucket_n("error-items-observed", got_err.values().sum::<usize>() as u64);
    if has_unreadable {
        rpt.bucket("faults:unreadable-directory");
    }
    if exp_err.len() >= 2 {
        rpt.bucket("faults:several");
    }
    if !exp_err.is_empty() {
        rpt.bucket("faults:some");
    }
    else {
        rpt.bucket("faults:none");
    }
    if !missing.is_empty() || !extra.is_empty() {
        let key = if follow && has_unreadable && !extra.is_empty() && extra.iter().all(|e| e == "<no path>")
            && missing.iter().all(|m| std::fs::symlink_metadata(m).map_or(false, |x| x.file_type().is_symlink()))
        {
            Some("followed-link-to-unreadable-directory-error-names-no-path")
        }
        else {
            None
        };
        rpt.disagreement(
            &ctx.known,
            "faults-not-reported-exactly-once-each-naming-the-offending-path",
            key,
            json!({"case": wit(), "missing_errors": short(&missing), "unexpected_errors": short(&extra)}),
        );
        return;
    }
    // The documented conversion into `io::Error` (what `?` in a function returning `io::Result`
    // does) still names the offending path: the converted error carries the walk error with the
    // same path and depth, and its text mentions the path.
    for it in bare.items.iter().filter(|i| i.is_err) {
        if let (Some(path), Some((text, carried))) = (&it.path, &it.io_error) {
            rpt.evaluations += 1;
            rpt.bucket("error-items-converted-into-io-errors");
            let names_path = text.contains(&format!("{:?}", path)) || text.contains(&*path.to_string_lossy());
            let carries = carried.as_ref().map_or(false, |(p, d)| p.as_ref() == Some(path) && *d == it.depth);
            if !names_path || !carries {
                rpt.disagreement(
                    &ctx.known,
                    "error-converted-into-io-error-no-longer-names-the-offending-path",
                    None,
                    json!({"case": wit(), "path": path.to_string_lossy(), "walk_error": it.error, "io_error": text, "carried_walk_error": carried.as_ref().map(|(p, d)| json!([p.as_ref().map(|p| p.to_string_lossy().to_string()), d]))}),
                );
                return;
            }
        }
    }
    // The readable part is walked completely.
    let exp_ok = match &bare_sim {
        Some(sim) => multiset(sim.yielded.iter().map(|e| e.path.clone())),
        None => multiset(model.oks().filter(|e| e.depth + prefix_depth >= min_depth).map(|e| e.path.clone())),
    };
    let got_ok = ok_paths(&bare.items);
    let (missing, extra) = diff(&exp_ok, &got_ok);
    if !missing.is_empty() || !extra.is_empty() {
        rpt.disagreement(
            &ctx.known,
            "fault-changes-which-entries-of-the-readable-part-are-yielded",
            None,
            json!({"case": wit(), "missing": short(&missing), "extra": short(&extra)}),
        );
        return;
    }
    // Combinators pass error items through unchanged and in place.
    if !layers.is_empty() {
        let filtered = match guarded(|| walkrun::run(&root, gwalk.as_ref().map(|x| &x.1), behaviour, &stack.rts)) {
            Some(o) => o,
            None => return,
        };
        rpt.evaluations += 1;
        let key = |i: &Item| (i.is_err, i.path.clone(), i.error.clone());
        let bare_seq: Vec<_> = bare.items.iter().map(key).collect();
        let filt_seq: Vec<_> = filtered.items.iter().map(key).collect();
        // The filtered sequence must be a subsequence of the bare one that retains every error.
        let mut j = 0;
        let mut ok = true;
        for f in &filt_seq {
            while j < bare_seq.len() && bare_seq[j] != *f {
                if bare_seq[j].0 {
                    ok = false; // an error item was dropped or moved
                }
                j += 1;
            }
            if j == bare_seq.len() {
                ok = false;
                break;
            }
            j += 1;
        }
        if bare_seq[j.min(bare_seq.len())..].iter().any(|b| b.0) {
            ok = false;
        }
        if !ok {
            rpt.disagreement(
                &ctx.known,
                "combinators-do-not-pass-error-items-through-unchanged-and-in-place",
                None,
                json!({"case": wit(), "bare": bare_seq.iter().map(|b| json!([b.0, b.1])).collect::<Vec<_>>(), "filtered": filt_seq.iter().map(|b| json!([b.0, b.1])).collect::<Vec<_>>()}),
            );
            return;
        }
        // Ok items: exactly those every layer keeps (no tree discards in these stacks).
        let gm = gwalk.as_ref().map(|x| glob_model(x));
        let sim = walksim::simulate(&model.entries, gm.as_ref(), &stack.models, &root, (min_depth, None));
        let exp = multiset(sim.yielded.iter().map(|e| e.path.clone()));
        let got = ok_paths(&filtered.items);
        let (missing, extra) = diff(&exp, &got);
        if !missing.is_empty() || !extra.is_empty() {
            rpt.disagreement(
                &ctx.known,
                "filtered-fault-walk-yields-the-wrong-entries",
                None,
                json!({"case": wit(), "missing": short(&missing), "extra": short(&extra)}),
            );
            return;
        }
    }
    if !exp_err.is_empty() {
        rpt.nontrivial.insert(hash_str(&wit().to_string()));
    }
    rpt.sample(json!({"faults": faults_desc, "follow": follow, "stack_kind": stack_kind, "errors": got_err.len(), "entries": got_ok.len()}));
}

// ------------------------------------------------------------------------------------------

impl Monitor for GroupC {
    fn meta(&self) -> Meta {
        match self.id {
            "C02" => Meta {
                id: "C02",
                group: Group::Walk,
                level: "exploration",
                rule: "random and steered directory trees (names that look like patterns, hidden, non-ASCII, with line feeds; optional links) x globs (fixed list, generated, derived from real paths of the tree) in three families (unrooted from 6 base spellings, '.'/'..' prefixed from a base inside the tree, rooted = escaped absolute path + glob) x link behaviour; yielded paths compared as multisets with an independent read_dir traversal filtered by Program::is_match on the candidate text; plus a string-level phase (hook H2): every matched candidate path passes every per-component program. distinct_nontrivial = distinct (glob, tree, base spelling) walks whose expected set is non-empty and smaller than the tree.",
                assumptions: &["std::fs and the kernel for the model traversal", "matching itself is taken from Program::is_match (C01 judges it)", "order of entries is not asserted"],
                floors: &["family:unrooted", "family:dotdot-prefix", "family:rooted", "walks-with-pruning", "walks-matching-directories", "string-level:matched-paths-checked", "base:relative", "base:absolute-trailing-dot"],
            },
            "C03" => Meta {
                id: "C03",
                group: Group::Walk,
                level: "exploration",
                rule: "for random/steered trees, an underlying path walk or glob walk is executed bare and with one negation (text, compiled glob, any([...])); the negated walk must equal the bare walk filtered by !negation.is_match(relative path), as multisets of paths; plus a string-level phase (hook H3): below every candidate directory that the negation discards as a tree, generated descendants must match the negation. distinct_nontrivial = distinct (walk, negation, tree) with at least one discarded and one surviving entry.",
                assumptions: &["both sides are executions of the real code on the same unchanged tree", "hook H3 for the tree/file decision"],
                floors: &["negation:text", "negation:compiled", "negation:any", "underlying:glob-walk", "underlying:path-walk", "walks-with-tree-discards", "string-level:descendants-of-tree-discards-checked"],
            },
            "C13" => Meta {
                id: "C13",
                group: Group::Walk,
                level: "exploration",
                rule: "stacks of 1-3 layers (negations as text/glob/any, filter_entry with pure hash verdicts keep/file/tree) plus a pass-through observer placed last, over path walks and glob walks, both link behaviours, base optionally a symbolic link; from the hooked WalkTree event log (yield/cancel), the closure call logs and a model of the pruned traversal: nothing is read beneath an effectively cancelled directory, what is read is exactly what is not strictly beneath a discarded directory, and the last observer sees exactly the fed entries once. distinct_nontrivial = distinct cases with a discarded tree that has a surviving sibling.",
                assumptions: &["hook H4 event log (thread-local, one walk per thread)", "hooks H2/H3 give the implementation's own prune decisions; whether they are sound is C02/C03's concern"],
                floors: &["effective-cancels", "ineffective-cancels(non-directory or repeated)", "stacks-with-discarded-trees", "tree-verdict-on-a-non-directory", "base-is-a-link"],
            },
            "C14" => Meta {
                id: "C14",
                group: Group::Walk,
                level: "exploration",
                rule: "glob walks (no prefix, prefixes of 1-3 components, rooted) from 7 base spellings (absolute, relative, trailing separator, trailing '.', './' prefixed, empty with cwd inside the tree) under random depth and link behaviours; on every yielded entry: root.join(relative)==path, depth==components(relative), matched==relative, glob matches relative, candidate==matched, root==base (unrooted) or empty (rooted). distinct_nontrivial = distinct (glob, base spelling, tree) walks with at least one entry checked.",
                assumptions: &["Path equality is component-wise"],
                floors: &["glob:rooted", "glob:prefixed", "glob:no-prefix", "prefix-length:2", "base:relative", "base:absolute-trailing-separator", "base:empty(cwd=tree)", "glob:rooted-at-the-file-system-root"],
            },
            "C15" => Meta {
                id: "C15",
                group: Group::Walk,
                level: "exploration",
                rule: "trees with links (to files, directories, nothing, ancestors, cousins) x globs with prefixes of 0-3 components or path walks x every (min,max) in 0..7 through all public constructors x both link behaviours; yielded set compared with the independent traversal restricted to the depth window measured from the base and to the link policy; link errors compared when nothing is pruned; item count bounded by the model (bounded-progress form of termination). distinct_nontrivial = distinct cases with a non-empty expected set under a bounded window or link following.",
                assumptions: &["termination is restated as bounded progress; a watchdog makes a case inconclusive"],
                floors: &["link:ReadTarget", "link:ReadFile", "prefix-length:0", "prefix-length:2", "window-excludes-every-reachable-depth", "maximum-smaller-than-prefix", "walks-with-link-errors", "constructor:DepthMinMax::from_depths_or_max", "constructor:DepthBehavior::bounded(min,max)"],
            },
            "C16" => Meta {
                id: "C16",
                group: Group::Walk,
                level: "exploration",
                rule: "stacks of 1-4 layers (negations and filter_entry closures with pure hash verdicts) over path walks and glob walks; all permutations (up to 6) of each stack are executed: yielded set == entries outside discarded trees that every layer keeps, identical for every order, and every closure's call log == exactly once per entry outside discarded trees (including entries discarded upstream). distinct_nontrivial = distinct stacks of >= 2 layers in which something was discarded.",
                assumptions: &["verdicts are pure functions of the path, so order independence is well defined"],
                floors: &["stack-length:2", "stack-length:3", "stack-length:4", "permutations-compared", "stacks-where-several-layers-see-discarded-entries"],
            },
            _ => Meta {
                id: "C20",
                group: Group::Walk,
                level: "fault_enumeration",
                rule: "enumeration over 4 fixed small trees of every single placement of {unreadable directory (mode 000, walked as uid 65534), dangling link, re-entrant link} x {first, middle, last child; every directory; the root} plus sampled pairs, x both link behaviours x 4 combinator stacks; plus random larger trees with links and unreadable directories. Err items (by path) must equal the model's faults, Ok items the walk of the readable part, and with combinators the item sequence must be a subsequence of the bare walk's that keeps every error item in place. distinct_nontrivial = distinct fault cases with at least one expected fault.",
                assumptions: &["permission faults require an unprivileged uid (workers re-execute as uid 65534 when started as root)", "directory read order is stable between two walks of the same unchanged tree"],
                floors: &["faults:some", "faults:none", "faults:several", "faults:unreadable-directory", "stack-kind:0", "stack-kind:3", "link:ReadTarget", "depth-kind:1", "depth-kind:2", "depth-kind:3"],
            },
        }
    }

    fn total_cases(&self, _tier: Tier, _seed: u64) -> usize {
        match self.id {
            "C20" => c20_case_count(_tier == Tier::Thorough) + self.cases / 3,
            _ => self.cases + self.strings.as_ref().map_or(0, |s| s.len()),
        }
    }

    fn run_case(&mut self, idx: usize, ctx: &Ctx, rpt: &mut Report) {
        if let Some(stream) = &self.strings {
            if idx >= self.cases {
                let expr = stream.at(idx - self.cases);
                ctx.begin(idx, &expr);
                match self.id {
                    "C02" => c02_strings(&expr, idx, ctx, rpt),
                    _ => c03_strings(&expr, idx, ctx, rpt),
                }
                return;
            }
        }
        match self.id {
            "C02" => c02_walk(idx, ctx, rpt),
            "C03" => c03_walk(idx, ctx, rpt),
            "C13" => c13(idx, ctx, rpt),
            "C14" => c14(idx, ctx, rpt),
            "C15" => c15(idx, ctx, rpt),
            "C16" => c16(idx, ctx, rpt),
            _ => c20(idx, ctx, rpt, c20_case_count(ctx.tier == Tier::Thorough)),
        }
    }
}

#[allow(dead_code)]
fn _unused(_: &MEntry, _: When, _: fn(&[String], &str) -> String) {
    let _ = candidate_text;
    let _ = is_strictly_beneath;
}
