//! Model of what a stack of walk combinators must produce over a model traversal.

use std::cell::RefCell;
use std::collections::BTreeSet;
use std::path::{Path, PathBuf};
use std::rc::Rc;

use wax::walk::{EntryResidue, FileIterator, Not, PathExt, WalkTree};
use wax::{Glob, Program};

use crate::case::guarded;
use crate::fsmodel::{is_strictly_beneath, MEntry};
use crate::monitors::walkgen::LayerSpec;
use crate::walkrun::{stable_text, verdict_of, FilterFn, LayerRt};

pub enum LayerModel {
    Not {
        is_match: Box<dyn Fn(&str) -> bool>,
        /// The implementation's own decision (hook H3) whether a match discards the tree.
        discards_tree: Box<dyn Fn(&str) -> bool>,
        /// The same decision derived from the public API only.
        matches_exhaustive: Box<dyn Fn(&str) -> bool>,
    },
    Filter {
        seed: u64,
        mode: u8,
    },
}

/// The alternatives a negation pattern is split into (top-level alternations are negated branch
/// by branch), derived from the reference parse; falls back to the whole pattern.
pub fn alternatives_of(p: &str) -> Vec<String> {
    use crate::refmodel::parse::{self, Node, Seq};
    use crate::refmodel::transform;
    fn nontrivial(mut seq: &Seq) -> &Seq {
        loop {
            if seq.toks.len() == 1 {
                match &seq.toks[0].node {
                    Node::Alt(bs) if bs.len() == 1 => {
                        seq = &bs[0];
                        continue;
                    },
                    Node::Rep { body, lo: 1, hi: Some(1) } => {
                        seq = body;
                        continue;
                    },
                    _ => {},
                }
            }
            return seq;
        }
    }
    fn go(seq: &Seq, explicit: bool, out: &mut Vec<String>) {
        let seq = nontrivial(seq);
        if seq.toks.len() == 1 {
            if let Node::Alt(bs) = &seq.toks[0].node {
                for b in bs {
                    go(b, explicit, out);
                }
                return;
            }
        }
        let mut e = String::new();
        transform::unparse_seq(seq, explicit, &mut e);
        out.push(e);
    }
    match parse::parse(p) {
        Ok(ast) if ast.notes.is_empty() && !ast.seq.toks.is_empty() => {
            let mut out = Vec::new();
            go(&ast.seq, transform::has_flags(&ast), &mut out);
            if out.iter().all(|e| Glob::new(e).is_ok()) {
                out
            }
            else {
                vec![p.to_string()]
            }
        },
        _ => vec![p.to_string()],
    }
}

/// Independent decision (public API only): a candidate is discarded as a tree iff it matches an
/// alternative of the negation that reports that it is always exhaustive.
fn exhaustive_matcher(patterns: &[String]) -> Box<dyn Fn(&str) -> bool> {
    let alts: Vec<Glob<'static>> = patterns
        .iter()
        .flat_map(|p| alternatives_of(p))
        .filter_map(|e| Glob::new(&e).ok().map(Glob::into_owned))
        .filter(|g| guarded(|| g.is_exhaustive()) == Some(wax::query::When::Always))
        .collect();
    Box::new(move |s| alts.iter().any(|g| guarded(|| g.is_match(s)).unwrap_or(false)))
}

pub struct Stack {
    pub rts: Vec<LayerRt>,
    pub models: Vec<LayerModel>,
    /// Call logs of the `filter_entry` layers (`None` for negations).
    pub logs: Vec<Option<Rc<RefCell<Vec<PathBuf>>>>>,
}

fn probe_not_text(p: &str) -> Option<Not<WalkTree>> {
    Path::new("/nonexistent-waxmon").walk().not(p).ok()
}

pub fn realize(specs: &[LayerSpec], tree_root: &Path) -> Option<Stack> {
    let mut rts = Vec::new();
    let mut models = Vec::new();
    let mut logs = Vec::new();
    for s in specs {
        match s {
            LayerSpec::NotText(p) => {
                let g = Glob::new(p).ok()?.into_owned();
                let probe = probe_not_text(p)?;
                rts.push(LayerRt::NotText(p.clone()));
                models.push(LayerModel::Not {
                    is_match: Box::new(move |s| guarded(|| g.is_match(s)).unwrap_or(false)),
                    discards_tree: Box::new(move |s| probe.verif_residue(s) == Some(EntryResidue::Tree)),
                    matches_exhaustive: exhaustive_matcher(std::slice::from_ref(p)),
                });
                logs.push(None);
            },
            LayerSpec::NotGlob(p) => {
                let g = Glob::new(p).ok()?.into_owned();
                let g2 = g.clone();
                let probe = Path::new("/nonexistent-waxmon").walk().not(g.clone()).ok()?;
                rts.push(LayerRt::NotGlob(g));
                models.push(LayerModel::Not {
                    is_match: Box::new(move |s| guarded(|| g2.is_match(s)).unwrap_or(false)),
                    discards_tree: Box::new(move |s| probe.verif_residue(s) == Some(EntryResidue::Tree)),
                    matches_exhaustive: exhaustive_matcher(std::slice::from_ref(p)),
                });
                logs.push(None);
            },
            LayerSpec::NotAny(ps) if ps.is_empty() => {
                // A combinator of no patterns is the union of nothing: the negation discards
                // nothing. (`any([]).is_match("")` answers true — a listed C07 finding — so the
                // model does not ask it.)
                let any = wax::any(Vec::<Glob<'static>>::new()).ok()?;
                rts.push(LayerRt::NotAny(any));
                models.push(LayerModel::Not {
                    is_match: Box::new(|_| false),
                    discards_tree: Box::new(|_| false),
                    matches_exhaustive: Box::new(|_| false),
                });
                logs.push(None);
            },
            LayerSpec::NotAny(ps) => {
                let globs: Vec<Glob<'static>> = ps
                    .iter()
                    .map(|p| Glob::new(p).ok().map(Glob::into_owned))
                    .collect::<Option<Vec<_>>>()?;
                let any = wax::any(globs.clone()).ok()?;
                let any2 = any.clone();
                let probe = Path::new("/nonexistent-waxmon").walk().not(any.clone()).ok()?;
                rts.push(LayerRt::NotAny(any));
                models.push(LayerModel::Not {
                    is_match: Box::new(move |s| guarded(|| any2.is_match(s)).unwrap_or(false)),
                    discards_tree: Box::new(move |s| probe.verif_residue(s) == Some(EntryResidue::Tree)),
                    matches_exhaustive: exhaustive_matcher(ps),
                });
                logs.push(None);
            },
            LayerSpec::Filter { seed, mode } => {
                let log = Rc::new(RefCell::new(Vec::new()));
                rts.push(LayerRt::Filter(FilterFn {
                    seed: *seed,
                    tree_root: tree_root.to_path_buf(),
                    mode: *mode,
                    log: log.clone(),
                }));
                models.push(LayerModel::Filter {
                    seed: *seed,
                    mode: *mode,
                });
                logs.push(Some(log));
            },
        }
    }
    Some(Stack { rts, models, logs })
}

pub struct GlobModel<'a> {
    pub glob: &'a Glob<'a>,
    /// Per-component programs (hook H2), compiled.
    pub components: Vec<regex::Regex>,
    /// Components of the invariant prefix between the base and the directory the walk starts in
    /// (for a rooted glob: the components of the absolute directory the walk starts in).
    pub prefix: Vec<String>,
    /// The glob is rooted: candidates are absolute paths.
    pub rooted: bool,
}

pub struct Sim {
    /// Entries (model) that reach the combinator stack, in traversal order.
    pub fed: Vec<MEntry>,
    pub yielded: Vec<MEntry>,
    /// Relative paths (from the start of the traversal) of directories discarded as trees.
    pub td: BTreeSet<String>,
    /// Tree verdicts issued on entries the walker does not report as directories.
    pub tree_verdicts_on_non_directories: usize,
    /// Error entries that must be produced.
    pub errors: Vec<MEntry>,
    /// Entries read from the file system (everything not strictly beneath a discarded tree).
    pub read: Vec<MEntry>,
    /// Candidates for which the hooked tree/file decision of a negation differs from "matches an
    /// always-exhaustive alternative".
    pub tree_decision_mismatches: Vec<String>,
    /// Relative paths of directories discarded as trees because a component program of the glob
    /// (hook H2) rejected them.
    pub td_by_glob: BTreeSet<String>,
    /// (directory, entry): entries beneath such a directory that the glob's complete program
    /// (public API) matches — the component program discarded a directory that it *could* match
    /// into (round 9, C13-J; the decision is borrowed through a hook, so it is compared with one
    /// derived from the public API).
    pub matches_beneath_glob_discards: Vec<(String, String)>,
}

pub fn candidate_text(prefix: &[String], rel: &str) -> String {
    let mut parts: Vec<&str> = prefix.iter().map(|s| s.as_str()).collect();
    if !rel.is_empty() {
        parts.push(rel);
    }
    parts.join("/")
}

/// Simulates the stack over the model traversal `entries` (pre-order). `window` is the depth
/// window measured from the base (prefix components count).
pub fn simulate(
    entries: &[MEntry],
    glob: Option<&GlobModel<'_>>,
    layers: &[LayerModel],
    tree_root: &Path,
    window: (usize, Option<usize>),
) -> Sim {
    let mut sim = Sim {
        fed: Vec::new(),
        yielded: Vec::new(),
        td: BTreeSet::new(),
        tree_verdicts_on_non_directories: 0,
        errors: Vec::new(),
        read: Vec::new(),
        tree_decision_mismatches: Vec::new(),
        td_by_glob: BTreeSet::new(),
        matches_beneath_glob_discards: Vec::new(),
    };
    let prefix: Vec<String> = glob.map(|g| g.prefix.clone()).unwrap_or_default();
    for e in entries {
        if let Some(d) = sim.td.iter().find(|d| is_strictly_beneath(&e.rel, d)) {
            if let Some(g) = glob {
                if !e.is_err && sim.td_by_glob.contains(d) && sim.matches_beneath_glob_discards.len() < 4 {
                    let cand = if g.rooted { format!("/{}", candidate_text(&prefix, &e.rel)) } else { candidate_text(&prefix, &e.rel) };
                    if guarded(|| g.glob.is_match(cand.as_str())) == Some(true) {
                        sim.matches_beneath_glob_discards.push((d.clone(), e.rel.clone()));
                    }
                }
            }
            continue;
        }
        let depth = prefix.len() + e.depth;
        if window.1.map_or(false, |max| depth > max) {
            continue;
        }
        if e.is_err {
            if sim.td.contains(&e.rel) {
                // The directory was discarded and is never read: no error.
                continue;
            }
            sim.errors.push(e.clone());
            continue;
        }
        sim.read.push(e.clone());
        if depth < window.0 {
            continue;
        }
        sim.fed.push(e.clone());
        let rooted = glob.map_or(false, |g| g.rooted);
        let cand = if rooted { format!("/{}", candidate_text(&prefix, &e.rel)) } else { candidate_text(&prefix, &e.rel) };
        let mut kept = true;
        let mut tree = false;
        if let Some(g) = glob {
            // (The root is not a candidate component.)
            let comps: Vec<&str> = if cand.is_empty() { Vec::new() } else { cand.split('/').filter(|c| !rooted || !c.is_empty()).collect() };
            let n = comps.len().min(g.components.len());
            // The walker compares components from the one before the entry's own level onwards
            // (ancestors were compared when they were produced; under a minimum depth they were
            // not produced and are not compared).
            let lo = e.depth.saturating_sub(1).min(n);
            let mismatch = (lo..n).any(|i| !g.components[i].is_match(comps[i]));
            if mismatch {
                kept = false;
                tree = true;
                if e.is_dir && e.descends {
                    sim.td_by_glob.insert(e.rel.clone());
                }
            }
            else if comps.len() < g.components.len() {
                kept = false;
            }
            else if guarded(|| g.glob.is_match(cand.as_str())) != Some(true) {
                kept = false;
            }
        }
        for l in layers {
            match l {
                LayerModel::Not { is_match, discards_tree, matches_exhaustive } => {
                    if is_match(&cand) {
                        kept = false;
                        if matches_exhaustive(&cand) {
                            tree = true;
                        }
                        if matches_exhaustive(&cand) != discards_tree(&cand) {
                            sim.tree_decision_mismatches.push(cand.clone());
                        }
                    }
                },
                LayerModel::Filter { seed, mode } => {
                    match verdict_of(*seed, *mode, &stable_text(&e.path, tree_root)) {
                        None => {},
                        Some(EntryResidue::File) => kept = false,
                        Some(EntryResidue::Tree) => {
                            kept = false;
                            tree = true;
                        },
                    }
                },
            }
        }
        if tree {
            if e.is_dir && e.descends {
                sim.td.insert(e.rel.clone());
            }
            else {
                sim.tree_verdicts_on_non_directories += 1;
            }
        }
        if kept {
            sim.yielded.push(e.clone());
        }
    }
    sim
}
