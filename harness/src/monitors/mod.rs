//! Monitors, one per property.

use crate::ctx::{Ctx, Tier};
use crate::report::Report;

pub mod group_a;
pub mod group_b;
pub mod group_c;
pub mod walkgen;
pub mod walksim;

#[derive(Clone, Copy, Debug, PartialEq, Eq)]
pub enum Group {
    /// Pure matching / building: any uid.
    Pure,
    /// Walking: runs unprivileged so permission faults are real.
    Walk,
}

pub struct Meta {
    pub id: &'static str,
    pub group: Group,
    pub level: &'static str,
    pub rule: &'static str,
    pub assumptions: &'static [&'static str],
    /// Buckets that every run must have observed at least once (coverage floors).
    pub floors: &'static [&'static str],
}

pub trait Monitor {
    fn meta(&self) -> Meta;
    fn total_cases(&self, tier: Tier, seed: u64) -> usize;
    fn run_case(&mut self, idx: usize, ctx: &Ctx, rpt: &mut Report);
    /// Called once per worker before the first case (e.g. re-execute listed witnesses).
    fn prologue(&mut self, _ctx: &Ctx, _rpt: &mut Report) {}
    /// Called once per worker after the last case.
    fn epilogue(&mut self, _ctx: &Ctx, _rpt: &mut Report) {}
}

pub fn make(id: &str, tier: Tier, seed: u64) -> Option<Box<dyn Monitor>> {
    match id {
        "C01" | "C04" | "C07" | "C08" | "C09" | "C10" | "C11" | "C12" | "C19" => {
            Some(Box::new(group_a::GroupA::new(id, tier, seed)))
        },
        "C05" | "C06" | "C17" | "C18" => Some(Box::new(group_b::GroupB::new(id, tier, seed))),
        "C02" | "C03" | "C13" | "C14" | "C15" | "C16" | "C20" => Some(Box::new(group_c::GroupC::new(id, tier, seed))),
        _ => None,
    }
}

/// Classifies a worker crash (C05) into a known-finding key from the in-flight operation.
pub fn classify_crash(what: &str, reason: &str) -> Option<&'static str> {
    group_b::classify_crash(what, reason)
}
