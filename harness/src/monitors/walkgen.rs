//! Generators for walk cases: trees (random and steered), globs for walking, bases, behaviours,
//! combinator stacks.

use std::path::{Path, PathBuf};

use wax::walk::{DepthBehavior, DepthMax, DepthMin, DepthMinMax, LinkBehavior, WalkBehavior};
use wax::{Glob, Program};

use crate::fsmodel::{valid_rel, Kind, TreeGen, TreeSpec, NAMES};
use crate::gen::expr as gexpr;
use crate::gen::path as gpath;
use crate::prng::Rng;
use crate::refmodel::hir as rhir;
use crate::refmodel::parse::{self, Ast, Node};
use crate::refmodel::sample;

/// Glob expressions that are useful to walk with the name pool of `fsmodel`.
pub const WALK_GLOBS: &[&str] = &[
    "**", "*", "**/*", "*/*", "**/a", "a/**", "a/**/b", "**/*.rs", "**/*.{rs,md,txt}", "a/*", "a/b/**", "a/b/*",
    "*/b", "?", "??", "[ab]", "[!a]*", "{a,b}", "{a,b}/**", "**/{a,b}", "**/{a,b}/**", "<*/>", "<*/>*", "<a/:0,2>*",
    "<[!.]*/>[!.]*", "**/.*", "**/.*/**", "(?i)a/**", "(?i)A*", "a*", "*a", "*.*", "**/x/**", "src/**/*.rs", "doc/*",
    "a/{b,c}/*", "a/<b/:1,2>*", "x{a/b,c}", "lib{/src,-x}-old", "<a/:1,2>b", "{a/b,c}/**", "**/a/*/b", "*/*/*",
    "**/*/*", "a/b/c", "a", "", "a/", "**/a\\ b", "**/\\*", "**/\\?", "**/\\[a\\]", "**/\\{a\\,b\\}", "**/金", "金/**",
    "**/a.b", "**/*.b", ".*", ".*/**", "**/[a-c]", "**/[!a-c]*", "$", "$a", "**/$.txt", "{a,b/**}", "{a/**,b/**}",
    "x/{a,b/**}", "**/{.git,target}/**", "**/{lib,main}.rs", "<*/:0,1>*", "<*/:1,>a", "a/<*/>", "*/**", "**/*/**",
    "a/**/*", "**/b/**/*", "[a]/**", "a/?", "a/??", "{a,b}{a,b}", "**/<a:1,2>", "**/{a}", "**/{a,bc}",
    "{A,a}/**", "{a,A}/*", "{SRC,src}/**/*.rs", "{B,b}", "{Ab,ab,AB}/**", "{DOC,doc}/*", "{b,B}/**", "{FOO,foo}/**",
];

pub const NEGATIONS: &[&str] = &[
    "**/a/**", "**/a", "**/*.rs", "**/.*/**", "**/.*", "a/**", "**/{a,b}/**", "**/{a,b}", "**/{a}", "**/{a,bc}",
    "**/<a:1,2>", "", "*", "**", "<*/>", "<*/>*", "**/x/**", "{a/**,b}", "{a,b/**}", "x/{a,b/**}", "**/*", "*/*",
    "a", "a/b", "a/b/**", "**/b/**", "(?i)**/A/**", "**/[ab]/**", "**/[!a]", "**/*.{rs,md}", "**/{.git,target}/**",
    "**/{lib,main}.rs", "<*/:0,1>*", "<*/:0,2>*", "<*/*/:1,>*", "**/金/**", "**/a.b", "?", "??/**", "**/?", "**/?/**",
    "a/**/b", "**/a/*/**", "{**/a/**,**/b}", "**/<a/:1,2>*", "**/a*/**", "**/*a/**", "$/**", "**/$",
    "<[0-9]:1,>", "<[a-z]:1,>", "{*.md,<[a-z]:1,>}", "<?:1,>", "<[a-zA-Z]:1,>", "{<[0-9]:1,>,*.rs}", "<a:1,>", "<[!.]:1,>",
    "<[0-9]:2,>", "<[a-z]:1,3>", "{{a/**,**/*.rs},b}", "{x,{**/.git/**,**/*.md}}", "{{a,b}/**,c}", "<{a,b}:1,>",
    // Exact counts (round 8, C03-I: a rebuilt token tree that loses the upper bound of a converged
    // repetition); the names in the trees are one to three characters long.
    "<?:1>/**", "<?:2>/**", "<[a-z]:1>", "**/<?:1>", "<?:1>", "<[!.]:2>/**", "<?:1,1>/**", "<[a-zA-Z]:2>", "**/<[a-z]:1>/**", "<?:2>",
    "(?i)**/*.TXT", "**/(?i)b", "(?i)A/**", "**/(?i)SRC/**", "(?i)**/{A,B}", "**/(?i)LIB.RS", "(?i)**/MAIN.*", "**/(?i)FOO/**", "(?i)**/[AB]",
];

pub fn parse_doc(expr: &str) -> Option<Ast> {
    parse::parse(expr).ok().filter(|a| a.notes.is_empty())
}

/// A glob for walking the given tree: from the fixed list, grammar-generated, or steered towards
/// the names that exist in the tree.
pub fn walk_glob(rng: &mut Rng, spec: &TreeSpec) -> String {
    for _ in 0..40 {
        let e = match rng.below(10) {
            0..=3 => (*rng.pick(WALK_GLOBS)).to_string(),
            4..=5 => {
                // Built from a real path of the tree: some components generalised.
                if spec.nodes.is_empty() {
                    continue;
                }
                let rel = rng.pick(&spec.nodes).rel.clone();
                let comps: Vec<&str> = rel.split('/').collect();
                let mut out: Vec<String> = Vec::new();
                for c in comps {
                    let e = wax::escape(c).to_string();
                    let piece = match rng.below(9) {
                        8 => {
                            // Alternation of case variants of a literal name, the spelling that
                            // exists on disk second: both branches are invariant text.
                            let swapped: String = c
                                .chars()
                                .map(|ch| {
                                    if ch.is_lowercase() && ch.to_uppercase().count() == 1 {
                                        ch.to_uppercase().next().unwrap()
                                    }
                                    else if ch.is_uppercase() && ch.to_lowercase().count() == 1 {
                                        ch.to_lowercase().next().unwrap()
                                    }
                                    else {
                                        ch
                                    }
                                })
                                .collect();
                            if swapped == c {
                                e.clone()
                            }
                            else {
                                format!("{{{},{}}}", wax::escape(&swapped), e)
                            }
                        },
                        0 => "*".to_string(),
                        1 => "**".to_string(),
                        2 => "?*".to_string(),
                        3 => format!("{{{},zz}}", e),
                        4 => {
                            let mut cs: Vec<char> = c.chars().collect();
                            if cs.is_empty() || cs.iter().any(|ch| gexpr_meta(*ch)) {
                                e.clone()
                            }
                            else {
                                let i = rng.below(cs.len());
                                cs.truncate(i);
                                format!("{}*", wax::escape(&cs.iter().collect::<String>()))
                            }
                        },
                        _ => e.clone(),
                    };
                    if piece == "**" && out.last().map_or(false, |l| l == "**") {
                        continue;
                    }
                    out.push(piece);
                }
                // Round 7 (C02-H): two neighbouring components merged into one branch that spans
                // the separator, next to an alternative of another component count, in a glob of
                // bounded depth: the component programs stop at that branch, and anything that
                // reasons about depth from there on has to get the level right for every family
                // (unrooted, parent-relative, rooted).
                if out.len() >= 2 && rng.chance(1, 3) {
                    let i = rng.below(out.len() - 1);
                    if out[i] != "**" && out[i + 1] != "**" {
                        let merged = match rng.below(4) {
                            0 => format!("{{{}/{},zz}}", out[i], out[i + 1]),
                            1 => format!("{{zz,{}/{}}}", out[i], out[i + 1]),
                            2 => format!("{{{}/{},{}}}", out[i], out[i + 1], out[i]),
                            _ => "<*/:1,2>*".to_string(),
                        };
                        out.splice(i..i + 2, [merged]);
                    }
                }
                out.join("/")
            },
            6..=7 => {
                let mut g = gexpr::Gen {
                    rng,
                    cfg: gexpr::Config {
                        obey: 95,
                        max_depth: 2,
                        max_tokens: 4,
                        flags: false,
                        unicode: false,
                    },
                };
                g.expr()
            },
            _ => {
                // Two pool names and wildcards.
                let a = wax::escape(rng.pick_str(NAMES)).to_string();
                let b = wax::escape(rng.pick_str(NAMES)).to_string();
                match rng.below(6) {
                    0 => format!("{}/**", a),
                    1 => format!("**/{}", a),
                    2 => format!("{}/{}", a, b),
                    3 => format!("{}/*/{}", a, b),
                    4 => format!("**/{}/**/{}", a, b),
                    _ => format!("{{{},{}}}/**", a, b),
                }
            },
        };
        if e.starts_with('/') {
            continue;
        }
        if let Ok(g) = Glob::new(&e) {
            // Never hand out a glob that would anchor a walk outside the tree: not rooted, and no
            // absolute invariant prefix (a class such as `[/]` contributes a separator to the
            // invariant text although it matches nothing).
            let prefix = g.clone().partition().0;
            if g.has_root() == wax::query::When::Never && !prefix.is_absolute() && !prefix.to_string_lossy().starts_with('/') {
                return e;
            }
        }
    }
    "**".to_string()
}

fn gexpr_meta(c: char) -> bool {
    parse::ESCAPABLE.contains(c) || c == '\\'
}

/// Plants paths sampled from the language of `expr` into the tree, with sub-trees beneath
/// directories that match (so pruning and exhaustiveness errors have something to lose).
pub fn steer(rng: &mut Rng, spec: &mut TreeSpec, expr: &str, n: usize) {
    let ast = match parse_doc(expr) {
        Some(a) => a,
        None => return,
    };
    let mut cands = sample::sample(&ast, rng, n * 2);
    if let Ok(g) = Glob::new(expr) {
        if let Some(h) = rhir::parse(g.verif_program_pattern()) {
            let pool: Vec<char> = vec!['a', 'b', 'x', '.', 'A', '/'];
            cands.extend(rhir::sample(&h, rng, &pool, n));
        }
    }
    let mut planted = 0;
    for c in cands {
        if planted >= n {
            break;
        }
        if !gpath::is_canonical(&c) || c.starts_with('/') || !valid_rel(&c) || c.split('/').count() > 5 {
            continue;
        }
        let as_dir = rng.chance(3, 5);
        if spec.plant_path(&c, as_dir) {
            planted += 1;
            if as_dir {
                // Non-matching looking names beneath.
                for _ in 0..rng.range(1, 3) {
                    let name = *rng.pick(&["keep.txt", "zz", "q", ".k", "inner"]);
                    let rel = format!("{}/{}", c, name);
                    let deeper = rng.chance(1, 3);
                    if spec.plant_path(&rel, deeper) && deeper {
                        spec.plant_path(&format!("{}/leaf", rel), false);
                    }
                }
            }
        }
    }
}

pub fn tree(rng: &mut Rng, max_nodes: usize, links: bool, faults: bool) -> TreeSpec {
    let mut spec = TreeGen {
        max_depth: 4,
        max_nodes,
        links,
        faults,
    }
    .generate(rng);
    // One tree in five also has names that are not valid UTF-8 (not under the syscall tier, whose
    // trace parser works on text).
    if rng.chance(1, 5) && !crate::walkrun::syscall_markers_enabled() {
        spec.plant_raw(rng);
    }
    spec
}

#[derive(Clone, Debug)]
pub struct BaseSpelling {
    pub label: &'static str,
    pub path: PathBuf,
}

/// Spellings of the tree root as a base directory. `cwd` is the process working directory (the
/// scratch directory, an ancestor of the tree).
pub fn base_spellings(root: &Path, cwd: &Path) -> Vec<BaseSpelling> {
    let mut v = vec![BaseSpelling {
        label: "absolute",
        path: root.to_path_buf(),
    }];
    let abs = root.to_string_lossy().to_string();
    v.push(BaseSpelling {
        label: "absolute-trailing-separator",
        path: PathBuf::from(format!("{}/", abs)),
    });
    v.push(BaseSpelling {
        label: "absolute-trailing-dot",
        path: PathBuf::from(format!("{}/.", abs)),
    });
    if let Ok(r) = root.strip_prefix(cwd) {
        let rel = r.to_string_lossy().to_string();
        v.push(BaseSpelling {
            label: "relative",
            path: PathBuf::from(&rel),
        });
        v.push(BaseSpelling {
            label: "relative-dot-prefixed",
            path: PathBuf::from(format!("./{}", rel)),
        });
        v.push(BaseSpelling {
            label: "relative-trailing-separator",
            path: PathBuf::from(format!("{}/", rel)),
        });
    }
    v
}

pub fn behaviours(rng: &mut Rng, max_depth: usize) -> WalkBehavior {
    let link = if rng.chance(1, 2) { LinkBehavior::ReadFile } else { LinkBehavior::ReadTarget };
    let depth = depth_behaviour(rng, max_depth).0;
    WalkBehavior { depth, link }
}

/// A depth behaviour through one of the public constructors, with the window it denotes.
pub fn depth_behaviour(rng: &mut Rng, max_depth: usize) -> (DepthBehavior, (usize, Option<usize>), &'static str) {
    let a = rng.below(max_depth + 3);
    let b = rng.below(max_depth + 3);
    match rng.below(7) {
        0 => (DepthBehavior::Unbounded, (0, None), "Unbounded"),
        1 => (DepthBehavior::Max(DepthMax(a)), (0, Some(a)), "DepthMax"),
        2 => (DepthMin::from_min_or_unbounded(a), (a, None), "DepthMin::from_min_or_unbounded"),
        3 => {
            let (lo, hi) = (a.min(b), a.max(b));
            (DepthMinMax::from_depths_or_max(a, b), (lo, Some(hi)), "DepthMinMax::from_depths_or_max")
        },
        4 => {
            let (lo, hi) = (a.min(b), a.max(b));
            match DepthBehavior::bounded(Some(lo), Some(hi)) {
                Some(d) => (d, (lo, Some(hi)), "DepthBehavior::bounded(min,max)"),
                None => (DepthBehavior::Max(DepthMax(hi)), (0, Some(hi)), "DepthMax"),
            }
        },
        5 => match DepthBehavior::bounded(None, Some(a)) {
            Some(d) => (d, (0, Some(a)), "DepthBehavior::bounded(None,max)"),
            None => (DepthBehavior::Unbounded, (0, None), "Unbounded"),
        },
        _ => match DepthBehavior::bounded(Some(a), None) {
            Some(d) => (d, (a, None), "DepthBehavior::bounded(min,None)"),
            None => (DepthBehavior::Unbounded, (0, None), "Unbounded"),
        },
    }
}

#[derive(Clone, Debug)]
pub enum LayerSpec {
    /// Negation given as text.
    NotText(String),
    /// Negation given as a compiled glob.
    NotGlob(String),
    /// Negation given as a combinator of several patterns.
    NotAny(Vec<String>),
    /// `filter_entry` with hash verdicts (`mode` 1..3) or a pure observer (`mode` 0).
    Filter { seed: u64, mode: u8 },
}

pub fn negation(rng: &mut Rng, spec: &TreeSpec) -> String {
    for _ in 0..20 {
        let e = match rng.below(6) {
            0..=2 => (*rng.pick(NEGATIONS)).to_string(),
            3 => {
                if spec.nodes.is_empty() {
                    continue;
                }
                let n = rng.pick(&spec.nodes);
                let name = n.rel.rsplit('/').next().unwrap_or("a");
                let e = wax::escape(name).to_string();
                match rng.below(5) {
                    0 => format!("**/{}/**", e),
                    1 => format!("**/{}", e),
                    2 => format!("**/{{{}}}", e),
                    3 => format!("**/{{{},zz}}/**", e),
                    _ => format!("{}/**", wax::escape(&n.rel)),
                }
            },
            _ => walk_glob(rng, spec),
        };
        if Glob::new(&e).is_ok() {
            return e;
        }
    }
    "**/a/**".to_string()
}

/// A combinator with the empty pattern at a random position among one to three other members;
/// every second time the others are all always-exhaustive.
pub fn any_with_empty_member(rng: &mut Rng, spec: &TreeSpec) -> Vec<String> {
    const EXHAUSTIVE: &[&str] = &["**/a/**", "a/**", "**/x/**", "**/.*/**", "**/{.git,target}/**", "**/b/**", "src/**", "{a/**,b/**}"];
    let n = rng.range(1, 3);
    let all_exhaustive = rng.chance(1, 2);
    let mut members: Vec<String> = (0..n)
        .map(|_| if all_exhaustive { rng.pick_str(EXHAUSTIVE).to_string() } else { negation(rng, spec) })
        .collect();
    let at = rng.below(members.len() + 1);
    members.insert(at, String::new());
    members
}

pub fn layer(rng: &mut Rng, spec: &TreeSpec) -> LayerSpec {
    match rng.below(10) {
        0..=2 => LayerSpec::NotText(negation(rng, spec)),
        3 => LayerSpec::NotGlob(negation(rng, spec)),
        4 => {
            if rng.chance(1, 2) && !spec.dirs().is_empty() {
                // An exhaustive and a nonexhaustive pattern that both match the same directory.
                let dirs = spec.dirs();
                let d = rng.pick(&dirs).clone();
                let name = d.rsplit('/').next().unwrap_or("a").to_string();
                let e = wax::escape(&name).to_string();
                let first: String = name.chars().take(1).collect();
                let pair = vec![format!("**/{}/**", e), format!("**/{}*", wax::escape(&first))];
                if pair.iter().all(|p| Glob::new(p).is_ok()) {
                    return if rng.chance(1, 2) { LayerSpec::NotAny(pair) } else { LayerSpec::NotAny(vec![pair[1].clone(), pair[0].clone()]) };
                }
            }
            if rng.chance(1, 4) {
                return LayerSpec::NotAny(any_with_empty_member(rng, spec));
            }
            if rng.chance(1, 6) {
                // A combinator of no patterns at all (an empty exclusion list): a negation that
                // discards nothing.
                return LayerSpec::NotAny(Vec::new());
            }
            let n = rng.range(1, 3);
            LayerSpec::NotAny((0..n).map(|_| negation(rng, spec)).collect())
        },
        5 => LayerSpec::Filter {
            seed: rng.next_u64(),
            mode: 0,
        },
        _ => LayerSpec::Filter {
            seed: rng.next_u64() % 1000,
            mode: rng.range(1, 3) as u8,
        },
    }
}

pub fn describe_layer(l: &LayerSpec) -> serde_json::Value {
    match l {
        LayerSpec::NotText(p) => serde_json::json!({"not(text)": p}),
        LayerSpec::NotGlob(p) => serde_json::json!({"not(glob)": p}),
        LayerSpec::NotAny(ps) => serde_json::json!({"not(any)": ps}),
        LayerSpec::Filter { seed, mode } => serde_json::json!({"filter_entry": {"seed": seed, "mode": mode}}),
    }
}

pub fn describe_tree(spec: &TreeSpec) -> serde_json::Value {
    serde_json::Value::Array(
        spec.nodes
            .iter()
            .map(|n| {
                let k = match &n.kind {
                    Kind::Dir => {
                        if n.unreadable {
                            "dir(000)".to_string()
                        }
                        else {
                            "dir".to_string()
                        }
                    },
                    Kind::File => "file".to_string(),
                    Kind::Link(t) => format!("link->{}", t),
                };
                serde_json::json!([n.rel, k])
            })
            .chain(spec.raw.iter().map(|r| {
                let bytes: String = r.rel.iter().map(|b| if b.is_ascii_graphic() && *b != b'\\' { (*b as char).to_string() } else { format!("\\x{:02X}", b) }).collect();
                serde_json::json!([bytes, if r.is_dir { "dir(raw bytes)" } else { "file(raw bytes)" }])
            }))
            .collect(),
    )
}

/// Leading literal components of an expression through its last `.`/`..` component, if any.
pub fn semantic_prefix(ast: &Ast) -> Option<String> {
    let mut comps: Vec<String> = Vec::new();
    let mut cur = String::new();
    let mut closed = true;
    let mut all_literal = true;
    for t in &ast.seq.toks {
        match &t.node {
            Node::Lit { text, ci: false } => {
                cur.push_str(text);
            },
            Node::Sep => {
                if cur.is_empty() {
                    return None;
                }
                comps.push(std::mem::take(&mut cur));
            },
            Node::Tree { lead: true, .. } => {
                // The tree wildcard absorbs the separator that ends the component.
                if !cur.is_empty() {
                    comps.push(std::mem::take(&mut cur));
                }
                all_literal = false;
                break;
            },
            _ => {
                all_literal = false;
                cur.clear();
                break;
            },
        }
    }
    if all_literal && !cur.is_empty() {
        comps.push(cur);
    }
    let _ = closed;
    let last = comps.iter().rposition(|c| c == "." || c == "..")?;
    Some(comps[..=last].join("/"))
}
