//! Per-run accounting: what the monitors observed, violations, known findings, inconclusives.

use serde_json::{json, Map, Value};
use std::collections::{BTreeMap, BTreeSet};

use crate::findings::KnownFindings;

pub const MAX_SAMPLES: usize = 12;
pub const MAX_WITNESSES_PER_SIG: usize = 3;

#[derive(Clone, Debug, Default)]
pub struct Report {
    pub prop: String,
    /// Oracle evaluations performed.
    pub evaluations: u64,
    /// Hashes of distinct non-trivial cases.
    pub nontrivial: BTreeSet<u64>,
    /// Feature / coverage buckets.
    pub buckets: BTreeMap<String, u64>,
    /// A few actual cases.
    pub samples: Vec<Value>,
    /// Unlisted violations by signature: (count, witnesses).
    pub violations: BTreeMap<String, (u64, Vec<Value>)>,
    /// Listed known findings observed: key -> (count, first witness).
    pub known: BTreeMap<String, (u64, Value)>,
    /// Inconclusive cases by reason: (count, first sample).
    pub inconclusive: BTreeMap<String, (u64, Value)>,
    /// Highest case index completed (for resuming after a crash).
    pub done_through: i64,
    /// Cases during which the worker process died (filled by the parent).
    pub crashes: Vec<Value>,
    /// Index of the case being executed (added to witnesses so they can be replayed).
    pub cur_idx: i64,
}

impl Report {
    pub fn new(prop: &str) -> Self {
        Report {
            prop: prop.to_string(),
            done_through: -1,
            ..Default::default()
        }
    }

    pub fn bucket(&mut self, name: &str) {
        *self.buckets.entry(name.to_string()).or_insert(0) += 1;
    }

    pub fn bucket_n(&mut self, name: &str, n: u64) {
        *self.buckets.entry(name.to_string()).or_insert(0) += n;
    }

    pub fn sample(&mut self, v: Value) {
        if self.samples.len() < MAX_SAMPLES {
            self.samples.push(v);
        }
    }

    pub fn inconclusive(&mut self, reason: &str, v: Value) {
        let e = self
            .inconclusive
            .entry(reason.to_string())
            .or_insert((0, v));
        e.0 += 1;
    }

    /// Records a disagreement. `key` is the known-finding signature computed by the monitor's
    /// classifier (if the case exhibits a listed deviation and nothing else); the disagreement is
    /// a known finding only if that key is listed in the committed file for this property.
    pub fn disagreement(
        &mut self,
        known: &KnownFindings,
        kind: &str,
        key: Option<&str>,
        witness: Value,
    ) {
        let witness = match witness {
            Value::Object(mut m) => {
                m.insert("case_index".into(), json!(self.cur_idx));
                Value::Object(m)
            },
            other => json!({"case_index": self.cur_idx, "witness": other}),
        };
        if let Some(key) = key {
            if known.is_listed(&self.prop, key) {
                let e = self.known.entry(key.to_string()).or_insert((0, witness));
                e.0 += 1;
                return;
            }
        }
        let sig = match key {
            Some(k) => format!("{}[unlisted:{}]", kind, k),
            None => kind.to_string(),
        };
        let e = self.violations.entry(sig).or_insert((0, Vec::new()));
        e.0 += 1;
        if e.1.len() < MAX_WITNESSES_PER_SIG {
            e.1.push(witness);
        }
    }

    pub fn merge(&mut self, other: Report) {
        self.evaluations += other.evaluations;
        self.nontrivial.extend(other.nontrivial);
        for (k, v) in other.buckets {
            *self.buckets.entry(k).or_insert(0) += v;
        }
        for s in other.samples {
            if self.samples.len() < MAX_SAMPLES {
                self.samples.push(s);
            }
        }
        for (k, (n, ws)) in other.violations {
            let e = self.violations.entry(k).or_insert((0, Vec::new()));
            e.0 += n;
            for w in ws {
                if e.1.len() < MAX_WITNESSES_PER_SIG {
                    e.1.push(w);
                }
            }
        }
        for (k, (n, w)) in other.known {
            let e = self.known.entry(k).or_insert((0, w));
            e.0 += n;
        }
        for (k, (n, w)) in other.inconclusive {
            let e = self.inconclusive.entry(k).or_insert((0, w));
            e.0 += n;
        }
        self.crashes.extend(other.crashes);
    }

    pub fn to_json(&self) -> Value {
        let mut m = Map::new();
        m.insert("prop".into(), json!(self.prop));
        m.insert("evaluations".into(), json!(self.evaluations));
        m.insert(
            "nontrivial".into(),
            Value::Array(self.nontrivial.iter().map(|h| json!(h)).collect()),
        );
        m.insert("buckets".into(), json!(self.buckets));
        m.insert("samples".into(), Value::Array(self.samples.clone()));
        m.insert(
            "violations".into(),
            Value::Object(
                self.violations
                    .iter()
                    .map(|(k, (n, ws))| (k.clone(), json!({"n": n, "w": ws})))
                    .collect(),
            ),
        );
        m.insert(
            "known".into(),
            Value::Object(
                self.known
                    .iter()
                    .map(|(k, (n, w))| (k.clone(), json!({"n": n, "w": w})))
                    .collect(),
            ),
        );
        m.insert(
            "inconclusive".into(),
            Value::Object(
                self.inconclusive
                    .iter()
                    .map(|(k, (n, w))| (k.clone(), json!({"n": n, "w": w})))
                    .collect(),
            ),
        );
        m.insert("done_through".into(), json!(self.done_through));
        m.insert("crashes".into(), Value::Array(self.crashes.clone()));
        Value::Object(m)
    }

    pub fn from_json(v: &Value) -> Option<Report> {
        let mut r = Report::new(v.get("prop")?.as_str()?);
        r.evaluations = v.get("evaluations")?.as_u64()?;
        for h in v.get("nontrivial")?.as_array()? {
            r.nontrivial.insert(h.as_u64()?);
        }
        for (k, n) in v.get("buckets")?.as_object()? {
            r.buckets.insert(k.clone(), n.as_u64()?);
        }
        r.samples = v.get("samples")?.as_array()?.clone();
        for (k, e) in v.get("violations")?.as_object()? {
            r.violations.insert(
                k.clone(),
                (e.get("n")?.as_u64()?, e.get("w")?.as_array()?.clone()),
            );
        }
        for (k, e) in v.get("known")?.as_object()? {
            r.known
                .insert(k.clone(), (e.get("n")?.as_u64()?, e.get("w")?.clone()));
        }
        for (k, e) in v.get("inconclusive")?.as_object()? {
            r.inconclusive
                .insert(k.clone(), (e.get("n")?.as_u64()?, e.get("w")?.clone()));
        }
        r.done_through = v.get("done_through")?.as_i64()?;
        r.crashes = v.get("crashes")?.as_array()?.clone();
        Some(r)
    }
}

/// Truncates long strings for witnesses while keeping them identifiable.
pub fn clip(s: &str) -> Value {
    if s.len() <= 400 {
        json!(s)
    }
    else {
        let mut end = 200;
        while !s.is_char_boundary(end) {
            end -= 1;
        }
        json!({"prefix": &s[..end], "len": s.len(), "hash": crate::prng::hash_str(s)})
    }
}
