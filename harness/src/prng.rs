//! Deterministic PRNG (splitmix64 seeding + xoshiro256**). No external crates.

#[derive(Clone, Debug)]
pub struct Rng {
    s: [u64; 4],
}

fn splitmix(x: &mut u64) -> u64 {
    *x = x.wrapping_add(0x9E37_79B9_7F4A_7C15);
    let mut z = *x;
    z = (z ^ (z >> 30)).wrapping_mul(0xBF58_476D_1CE4_E5B9);
    z = (z ^ (z >> 27)).wrapping_mul(0x94D0_49BB_1331_11EB);
    z ^ (z >> 31)
}

pub fn hash_str(s: &str) -> u64 {
    // FNV-1a, then mixed.
    let mut h: u64 = 0xcbf2_9ce4_8422_2325;
    for b in s.as_bytes() {
        h ^= u64::from(*b);
        h = h.wrapping_mul(0x0000_0100_0000_01B3);
    }
    let mut x = h;
    splitmix(&mut x)
}

pub fn hash_bytes(s: &[u8]) -> u64 {
    let mut h: u64 = 0xcbf2_9ce4_8422_2325;
    for b in s {
        h ^= u64::from(*b);
        h = h.wrapping_mul(0x0000_0100_0000_01B3);
    }
    let mut x = h;
    splitmix(&mut x)
}

impl Rng {
    pub fn new(seed: u64) -> Self {
        let mut x = seed ^ 0x5851_F42D_4C95_7F2D;
        let s = [
            splitmix(&mut x),
            splitmix(&mut x),
            splitmix(&mut x),
            splitmix(&mut x),
        ];
        Rng { s }
    }

    /// Derives an independent stream from a seed and a label.
    pub fn derive(seed: u64, label: &str, index: u64) -> Self {
        Rng::new(seed ^ hash_str(label).rotate_left(17) ^ index.wrapping_mul(0xA24B_AED4_963E_E407))
    }

    pub fn next_u64(&mut self) -> u64 {
        let result = self.s[1].wrapping_mul(5).rotate_left(7).wrapping_mul(9);
        let t = self.s[1] << 17;
        self.s[2] ^= self.s[0];
        self.s[3] ^= self.s[1];
        self.s[1] ^= self.s[2];
        self.s[0] ^= self.s[3];
        self.s[2] ^= t;
        self.s[3] = self.s[3].rotate_left(45);
        result
    }

    /// Uniform in `0..n` (n > 0).
    pub fn below(&mut self, n: usize) -> usize {
        if n <= 1 {
            return 0;
        }
        (self.next_u64() % (n as u64)) as usize
    }

    /// Uniform in `lo..=hi`.
    pub fn range(&mut self, lo: usize, hi: usize) -> usize {
        if hi <= lo {
            return lo;
        }
        lo + self.below(hi - lo + 1)
    }

    pub fn chance(&mut self, num: u32, den: u32) -> bool {
        (self.next_u64() % u64::from(den)) < u64::from(num)
    }

    pub fn pick<'a, T>(&mut self, items: &'a [T]) -> &'a T {
        &items[self.below(items.len())]
    }

    pub fn pick_str<'a>(&mut self, items: &[&'a str]) -> &'a str {
        items[self.below(items.len())]
    }

    pub fn shuffle<T>(&mut self, items: &mut [T]) {
        for i in (1..items.len()).rev() {
            let j = self.below(i + 1);
            items.swap(i, j);
        }
    }

    pub fn state(&self) -> [u64; 4] {
        self.s
    }
}
