//! Grammar-based glob expression generator, small-scope sweep, corpus and mutators.

use crate::prng::Rng;

pub const CORPUS_UNIT: &str = include_str!("../../corpus/unit_exprs.txt");
pub const CORPUS_README: &str = include_str!("../../corpus/readme_exprs.txt");

/// Expressions named in the property records and found while probing (deviations and their
/// conforming neighbours).
pub const CORPUS_EXTRA: &[&str] = &[
    // A class that leads a branch directly after case-insensitive text (round 9, C04-J).
    "(?i)shot-<[0-9a-f]:4>.png",
    "(?i)disk-{[a-d],all}.img",
    "(?i)x{[a-c]*,d}",
    "(?i)ab<[a-z]:2>",
    // Nothing but flags: the parse fails exactly at the end of the input (round 8, C17-I).
    "(?i)",
    "(?-i)",
    "(?i)(?-i)",
    "(?i-i)",
    "金(?i)",
    "a/(?-i)",
    // A class that matches nothing (range written end first) in the invariant-prefix position
    // (round 8, C08-I).
    "v[9-0]/*.log",
    "[z-a]/**",
    "x/[b-a]/*.rs",
    "[9-0]x/**/*",
    // Invariant prefixes whose spelling is longer than their text, next to multi-byte text at the
    // split point of a partition (round 8, C05-I).
    "[a]/é/*.txt",
    "{a}/é/*",
    "{ab}/金/*",
    "x[b]/éé/**",
    "<a:2>/é/*",
    "[a][b]/金金/*.rs",
    "{a}{b}/é金/**/*",
    "\\*/é/*",
    // Classes with a range written end first (they build and match nothing; round 7, C11-H).
    "[b-a]",
    "x[z-a]y",
    "dir/[9-0].txt",
    "[b-ab]",
    "[9-0]/a",
    "{[b-a],c}",
    "<[z-a]:2>",
    "a[!b-a]",
    "v(?-i)[2]/*.rs",
    "(?i)[a]/b/*",
    "a(?i)[b]c/**/*.txt",
    "x/(?-i)[y]/z*",
    "(?i)(?-i)[q]/**",
    "{a,a/b}/*",
    "{a/b,a}/*.txt",
    "{src,src/lib}/**/*.rs",
    "{a,a/b,a/b/c}/*",
    "x/{a,a/b}/*",
    "{a/b,a/b/c}/**",
    "**/?*",
    "**/?*?*",
    "**/?*/?*",
    "a/**/?$?*",
    "<*/>?*?*",
    "**/*?",
    "**/??*",
    "<**/\\<:0,1>/**/ǆ",
    "/x{a/**,**/b}",
    "**/b",
    "(?i)a[b]",
    "(?i)a[!b]",
    "(?i)[b]a",
    "a[b](?i)c",
    "(?i)a{[b],c}",
    "{(?i)a,b}[c]",
    "/**/a",
    "/**/a/b",
    "/**/*.txt",
    "/**",
    "**",
    "**/a",
    "a/**",
    "a/**/b",
    "{.A{**/A}}ba",
    ".A{**/A}ba",
    "x{**/b,c}",
    "{a/**,b}c",
    "a{/**/b,c}d",
    "{{**/a,b}c,d}",
    "{a,{b,c/**}}",
    "<a/**/b:2>",
    "<**/a:2>",
    "**/{a}",
    "**/{a,bc}",
    "**/<a:1,2>",
    "**/a",
    "**/<?>",
    "<*/>",
    "<*/>*",
    "<<?>/>",
    "a/<*/>",
    "<a:0,2><b:1,>",
    "<a/:0,2><b/:3,>c",
    "<a/:0,3><b/:1,>c",
    "<a:1,18446744073709551615>",
    "<a*:4294967296,>",
    "<<a:4294967296>:4294967296>",
    "<a*:18446744073709551615,>b",
    "{{/a,b}c,d}x{e,f}",
    "{{/a,b}c,d}x",
    "{{**/a,b}c,d}x/{e,f}",
    "{{**/a,b}c,d}x{e,f}",
    "{</a:1,>,b}",
    "<</a:1,>:0,>",
    "{a,</b:1,>}",
    "{a{x,y},{b,/c}}",
    "</a:2>*",
    "</a:1,>",
    "</a:1,>b",
    "(?i)1/a*",
    "(?i)a/b*",
    "a/(?i)b/c*",
    "a/b/**",
    "a/b/*",
    "../**",
    "./**",
    "a/../b/*",
    "(?i)ǅ",
    "(?i)ß",
    "(?i)σ",
    "(?i)K",
    "(?i)k",
    "(?i)İ",
    "金\\",
    "金[",
    "a金{",
    "é<",
    "{a,b}",
    "{a}",
    "<a:1>",
    "<a:1,1>",
    "<a:2>",
    "<a/b:2>",
    "<a/:2>b",
    "{a/b}*",
    "x/{b/c}d?.ext",
    "<a/b:2>*",
    "(?i)photos/*.jpg",
    "(?i)img-{(?-i)Raw,edited}",
    "(?i)x<(?-i)ab:2>",
    "a[.-0]b",
    "<[ -~]:1,>.log",
    "{a,{b,c}d}",
    "{{a,b}x}",
    "<{a,b}x:2>",
    "**/<a/:0,2>b",
    "<a/:0,2>b/**",
    "<x/><a/:0,1>b",
    "/<a/:1,2>b",
    "/a/<b/:1,2>c",
    "/<*/>x",
    "{**/src,lib}/*.rs",
    ".(?i).",
    "a/.(?i)./b",
    "{a,.(?-i).}",
    "a[/]b",
    "a[!/]b",
    "[/a]",
    "[a-a]",
    "[!a-a]",
    "a\nb",
    "**/a\nb",
    "*\n*",
    "[\n]",
    "x/{a,b/**}",
    "{a/**,b/**}",
    "{a,b/**}",
    "**/x/**",
    "**/.*/**",
    "**/(?i)<.:0,1>private/**",
    "log<-[0-9]:3,4>.txt",
    "<a/:2,5>b",
    "a/**/b/*",
    "**/*.rs",
];

fn corpus_lines(s: &'static str) -> impl Iterator<Item = &'static str> {
    s.lines()
}

pub fn corpus() -> Vec<String> {
    let mut out: Vec<String> = Vec::new();
    for l in corpus_lines(CORPUS_UNIT)
        .chain(corpus_lines(CORPUS_README))
        .chain(CORPUS_EXTRA.iter().copied())
    {
        let s = l.to_string();
        if !out.contains(&s) {
            out.push(s);
        }
    }
    out
}

#[derive(Clone, Copy, PartialEq, Eq, Debug)]
enum Last {
    Start,
    Lit,
    Sep,
    TreeTrail,
    Zom,
    Other,
    Branch,
}

#[derive(Clone, Copy, PartialEq, Eq, Debug)]
pub enum Ctx {
    Top,
    Alt,
    Rep,
}

#[derive(Clone, Debug)]
pub struct Config {
    /// Probability (percent) that local rule-avoidance heuristics are obeyed.
    pub obey: u32,
    pub max_depth: usize,
    pub max_tokens: usize,
    pub flags: bool,
    pub unicode: bool,
}

impl Default for Config {
    fn default() -> Self {
        Config {
            obey: 88,
            max_depth: 3,
            max_tokens: 5,
            flags: true,
            unicode: true,
        }
    }
}

const LITS_ASCII: &[&str] = &[
    "a", "b", "c", "ab", "A", "B", "aB", "x", "1", ".", "..", ".a", "a.b", "-", "_", "foo", ".git",
    "a b", "!", "^", "|", "+", "a+", ".*", "\\*", "\\?", "\\[", "\\]", "\\{", "\\}", "\\,", "\\:",
    "\\<", "\\>", "\\(", "\\)", "\\$", "a\\*b", "~", "#", "&", "a&&b", "=", "%", "@", "'", "\"",
];
const LITS_UNI: &[&str] = &[
    "é", "É", "ß", "ẞ", "σ", "ς", "Σ", "ǅ", "ǆ", "K", "\u{212A}", "金", "銀", "e\u{301}", "İ", "ı",
    "a\nb", "\n", "\t", "\u{7f}", "ﬁ", "ǰ", "Ω", "\u{2126}", "µ", "\u{3bc}", "ſ", "s",
];
const CLASS_ITEMS: &[&str] = &[
    "a", "b", "ab", "A", "B", "z", "0", ".", "/", "*", "?", "\\-", "\\]", "\\[", "a-c", "A-Z",
    "0-9", "a-a", "x-z", "!", "^", ",", "{", "}", "$", ":", "<", ">", "(", ")", "金", "é", "É",
    "a/", "/-9", ".-0", " -~", "\n", "σ", "ǅ", "k", "K", "\u{212A}", "b-a", "&", "&&", "~", "a&&b",
];
const BOUNDS: &[&str] = &[
    "", ":", ":0,", ":1,", ":2", ":1,2", ":0,1", ":0,3", ":3", ":2,", ":1", ":1,1", ":0,2", ":2,3",
    ":2,5", ":0,0", ":3,1", ":4", ":1,4",
];
const FLAGS: &[&str] = &["(?i)", "(?-i)", "(?i-i)", "(?-ii)", "(?i)(?-i)"];

pub struct Gen<'a> {
    pub rng: &'a mut Rng,
    pub cfg: Config,
}

impl<'a> Gen<'a> {
    fn obey(&mut self) -> bool {
        self.rng.chance(self.cfg.obey, 100)
    }

    fn literal(&mut self) -> String {
        if self.cfg.unicode && self.rng.chance(1, 6) {
            (*self.rng.pick(LITS_UNI)).to_string()
        }
        else {
            (*self.rng.pick(LITS_ASCII)).to_string()
        }
    }

    fn class(&mut self) -> String {
        let mut s = String::from("[");
        if self.rng.chance(1, 4) {
            s.push('!');
        }
        let n = self.rng.range(1, 3);
        for _ in 0..n {
            s.push_str(self.rng.pick_str(CLASS_ITEMS));
        }
        s.push(']');
        s
    }

    pub fn seq(&mut self, ctx: Ctx, depth: usize, out: &mut String) {
        let n = if depth == 0 {
            self.rng.range(1, self.cfg.max_tokens)
        }
        else {
            self.rng.range(1, 3)
        };
        let mut last = Last::Start;
        for k in 0..n {
            let is_last = k + 1 == n;
            if self.cfg.flags && self.rng.chance(1, 9) {
                // Flags before a token. (Before a leading `**` they are a parse error in the
                // implementation; the generator mostly avoids that.)
                out.push_str(self.rng.pick_str(FLAGS));
                if last == Last::Start {
                    last = Last::Other;
                    // Force a non-tree token next by emitting a literal immediately.
                    let l = self.literal();
                    out.push_str(&l);
                    last = Last::Lit;
                    continue;
                }
            }
            let obey = self.obey();
            // Choose a token kind.
            let roll = self.rng.below(100);
            let kind = if roll < 30 {
                0 // literal
            }
            else if roll < 45 {
                1 // separator
            }
            else if roll < 55 {
                2 // ?
            }
            else if roll < 67 {
                3 // * or $
            }
            else if roll < 75 {
                4 // class
            }
            else if roll < 85 {
                5 // tree
            }
            else if roll < 93 {
                6 // alternation
            }
            else {
                7 // repetition
            };
            let kind = if depth >= self.cfg.max_depth && kind >= 6 {
                0
            }
            else {
                kind
            };
            match kind {
                1 => {
                    if obey && matches!(last, Last::Sep | Last::TreeTrail) {
                        let l = self.literal();
                        out.push_str(&l);
                        last = Last::Lit;
                    }
                    else if obey && last == Last::Start && ctx != Ctx::Top {
                        // Rooted branches are mostly rejected; usually avoid.
                        let l = self.literal();
                        out.push_str(&l);
                        last = Last::Lit;
                    }
                    else {
                        out.push('/');
                        last = Last::Sep;
                    }
                },
                2 => {
                    out.push('?');
                    last = Last::Other;
                },
                3 => {
                    if obey && last == Last::Zom {
                        let l = self.literal();
                        out.push_str(&l);
                        last = Last::Lit;
                    }
                    else {
                        out.push(if self.rng.chance(1, 4) { '$' } else { '*' });
                        last = Last::Zom;
                    }
                },
                4 => {
                    let c = self.class();
                    out.push_str(&c);
                    last = Last::Other;
                },
                5 => {
                    // Tree wildcard. Syntax: `**` needs a leading `/` unless first, and a
                    // trailing `/` unless last.
                    let single = n == 1;
                    if obey && single && ctx != Ctx::Top {
                        let l = self.literal();
                        out.push_str(&l);
                        last = Last::Lit;
                        continue;
                    }
                    let lead = match last {
                        Last::Start => self.rng.chance(1, 5) && (ctx == Ctx::Top || !obey),
                        Last::Sep | Last::TreeTrail => {
                            if obey {
                                // Would be an adjacent boundary; emit a literal first.
                                let l = self.literal();
                                out.push_str(&l);
                            }
                            true
                        },
                        _ => true,
                    };
                    if lead {
                        out.push('/');
                    }
                    out.push_str("**");
                    if is_last && self.rng.chance(2, 3) {
                        last = Last::Other;
                    }
                    else {
                        out.push('/');
                        last = Last::TreeTrail;
                    }
                },
                6 => {
                    out.push('{');
                    let m = self.rng.range(1, 3);
                    for j in 0..m {
                        if j > 0 {
                            out.push(',');
                        }
                        self.seq(Ctx::Alt, depth + 1, out);
                    }
                    out.push('}');
                    last = Last::Branch;
                },
                7 => {
                    out.push('<');
                    self.seq(Ctx::Rep, depth + 1, out);
                    out.push_str(self.rng.pick_str(BOUNDS));
                    out.push('>');
                    last = Last::Branch;
                },
                _ => {
                    if last == Last::Lit && obey {
                        // Two literals in a row coalesce; fine but pick another kind sometimes.
                        out.push('?');
                        last = Last::Other;
                    }
                    else {
                        let l = self.literal();
                        out.push_str(&l);
                        last = Last::Lit;
                    }
                },
            }
        }
    }

    pub fn expr(&mut self) -> String {
        let mut s = String::new();
        self.seq(Ctx::Top, 0, &mut s);
        s
    }
}

/// Symbols of the small-scope sweep.
pub const SWEEP_ALPHABET: &[&str] = &[
    "a", "/", "*", "?", "**", "[b]", "{a,b}", "<a:1,2>", "(?i)", "B", "$", "{a/,b}", "</a:1,>",
    "{**/a,b}", "<a/>", "{a,b/**}",
];

/// Enumerates all concatenations of sweep symbols up to `max_len` (deterministic order).
pub fn sweep(max_len: usize) -> Vec<String> {
    let mut out = vec![];
    let mut frontier: Vec<String> = vec![String::new()];
    for _ in 0..max_len {
        let mut next = Vec::new();
        for p in &frontier {
            for s in SWEEP_ALPHABET {
                let mut e = p.clone();
                e.push_str(s);
                next.push(e);
            }
        }
        out.extend(next.iter().cloned());
        frontier = next;
    }
    out
}

/// Two- and three-level branch shapes over a small alphabet (for rule checking, C06).
pub fn branch_shapes(rng: &mut Rng, n: usize) -> Vec<String> {
    const LEAF: &[&str] = &["a", "/a", "a/", "**/a", "a/**", "*", "*a", "a*", "/", "/**/a", "b"];
    const CTX_L: &[&str] = &["", "x", "x/", "x*", "{e,f}", "{e/,f}", "<y:1,>", "**/", "{e,f/**}"];
    const CTX_R: &[&str] = &["", "x", "/x", "*x", "{e,f}", "{/e,f}", "<y:1,>", "/**", "{**/e,f}"];
    let mut out = Vec::new();
    for _ in 0..n {
        if rng.chance(1, 6) {
            // Two or three branches directly adjacent, their alternatives of one to three tokens
            // drawn from wildcard-edged pieces (adjacency is judged from both sides).
            const PIECE: &[&str] = &["a*", "*a", "a", "c*", "d?$", "$", "*", "b", "a?*", "x/", "/y", "**/z", "c$"];
            let mut e = String::new();
            e.push_str(rng.pick_str(&["", "", "x", "x/"]));
            for _ in 0..rng.range(2, 3) {
                if rng.chance(1, 4) {
                    e.push('<');
                    e.push_str(rng.pick_str(PIECE));
                    e.push_str(rng.pick_str(&[":2", ":1,2", ":1,", ""]));
                    e.push('>');
                }
                else {
                    e.push('{');
                    for j in 0..rng.range(1, 3) {
                        if j > 0 {
                            e.push(',');
                        }
                        e.push_str(rng.pick_str(PIECE));
                    }
                    e.push('}');
                }
            }
            e.push_str(rng.pick_str(&["", "", "y", "*"]));
            out.push(e);
            continue;
        }
        let depth = rng.range(1, 3);
        let mut e = String::new();
        fn build(rng: &mut Rng, depth: usize, out: &mut String) {
            if depth == 0 {
                out.push_str(rng.pick_str(LEAF));
                return;
            }
            let rep = rng.chance(1, 4);
            if rep {
                out.push('<');
                if rng.chance(1, 3) {
                    out.push_str(rng.pick_str(LEAF));
                }
                build(rng, depth - 1, out);
                if rng.chance(1, 3) {
                    out.push_str(rng.pick_str(LEAF));
                }
                out.push_str(rng.pick_str(&[":1,", ":0,", ":2", "", ":1,2", ":1"]));
                out.push('>');
            }
            else {
                out.push('{');
                let m = rng.range(1, 3);
                for j in 0..m {
                    if j > 0 {
                        out.push(',');
                    }
                    if rng.chance(1, 3) {
                        out.push_str(rng.pick_str(&["a", "b", "a/", "*", "x"]));
                    }
                    if rng.chance(1, 2) {
                        build(rng, depth - 1, out);
                    }
                    else {
                        out.push_str(rng.pick_str(LEAF));
                    }
                    if rng.chance(1, 3) {
                        out.push_str(rng.pick_str(&["c", "d", "/c", "*", "x"]));
                    }
                }
                out.push('}');
            }
        }
        e.push_str(rng.pick_str(CTX_L));
        build(rng, depth, &mut e);
        e.push_str(rng.pick_str(CTX_R));
        if rng.chance(1, 3) {
            build(rng, 1, &mut e);
            e.push_str(rng.pick_str(CTX_R));
        }
        out.push(e);
    }
    out
}

/// Mutates an expression (structure-aware where cheap, textual otherwise).
pub fn mutate(rng: &mut Rng, e: &str) -> String {
    let chars: Vec<char> = e.chars().collect();
    match rng.below(13) {
        12 => {
            // White space is ordinary literal text: at the very end, the very beginning, or both.
            let ws = rng.pick_str(&[" ", "\t", "\n", "\u{a0}", "\u{3000}", "  ", "\r\n"]);
            match rng.below(3) {
                0 => format!("{}{}", e, ws),
                1 => format!("{}{}", ws, e),
                _ => format!("{}{}{}", ws, e, ws),
            }
        },
        0 => format!("{{{}}}", e),
        1 => format!("<{}:1>", e),
        2 => format!("<{}:1,1>", e),
        3 => format!("{{{},{}}}", e, rng.pick(LITS_ASCII)),
        4 => format!("{}{}", rng.pick(FLAGS), e),
        5 => format!("{}/{}", rng.pick(LITS_ASCII), e),
        6 => format!("{}/{}", e, rng.pick(LITS_ASCII)),
        7 => format!("**/{}", e),
        8 => format!("{}/**", e),
        9 => {
            // Insert a flag at a random char boundary.
            let i = rng.below(chars.len() + 1);
            let mut s: String = chars[..i].iter().collect();
            s.push_str(rng.pick_str(FLAGS));
            s.extend(chars[i..].iter());
            s
        },
        10 => {
            // Replace one char.
            if chars.is_empty() {
                return "a".into();
            }
            let i = rng.below(chars.len());
            let mut c2 = chars.clone();
            c2[i] = *rng.pick(&['a', '/', '*', '?', '{', '}', '<', '>', '[', ']', ',', ':', '金', '\\', '(', ')', '$', '-', '!']);
            c2.into_iter().collect()
        },
        _ => {
            // Splice two halves with another corpus-like fragment.
            let i = rng.below(chars.len() + 1);
            let mut s: String = chars[..i].iter().collect();
            s.push_str(rng.pick_str(SWEEP_ALPHABET));
            s.extend(chars[i..].iter());
            s
        },
    }
}

/// Arbitrary strings for totality checks (group B).
pub fn arbitrary(rng: &mut Rng) -> String {
    const META: &[char] = &[
        '?', '*', '$', ':', '<', '>', '(', ')', '[', ']', '{', '}', ',', '\\', '/', '-', '!', 'i',
        'a', 'b', '0', '1', '9', '金', 'é', '\n', '.',
    ];
    let n = rng.range(0, 24);
    let mut s = String::new();
    for _ in 0..n {
        match rng.below(10) {
            0 => {
                // Random scalar value.
                let v = (rng.next_u64() % 0x11_0000) as u32;
                if let Some(c) = char::from_u32(v) {
                    s.push(c);
                }
            },
            1 => s.push_str(rng.pick_str(SWEEP_ALPHABET)),
            2 => s.push_str(rng.pick_str(BOUNDS)),
            _ => s.push(*rng.pick(META)),
        }
    }
    s
}

/// Depth and bound bombs for totality checks.
pub fn bombs() -> Vec<String> {
    let mut out = Vec::new();
    for &d in &[10usize, 50, 100, 120, 128, 129, 130, 131, 135, 150, 200, 300, 500, 1000, 2000, 5000, 10000] {
        out.push(format!("{}a{}", "{".repeat(d), "}".repeat(d)));
        out.push(format!("{}a{}", "<".repeat(d), ">".repeat(d)));
        out.push(format!("{}a{}", "<{".repeat(d / 2), "}>".repeat(d / 2)));
        out.push("{".repeat(d));
        out.push("<".repeat(d));
        out.push("[".repeat(d));
        out.push("(".repeat(d));
        out.push(format!("{}a", "(?i)".repeat(d)));
        out.push(format!("a{}", "/a".repeat(d)));
        out.push(format!("{}", "{a,b}".repeat(d.min(2000))));
        out.push(format!("{}", "{a,b/c}".repeat(d.min(400))));
    }
    for b in [
        "0", "1", "2", "255", "256", "1000", "65535", "65536", "65537", "16500", "4294967295", "4294967296",
        "4294967297", "9223372036854775807", "9223372036854775808", "18446744073709551614",
        "18446744073709551615", "18446744073709551616", "340282366920938463463374607431768211456",
        "000000000000000000000000000001",
    ] {
        for body in ["a", "a*", "a/", "?", "[ab]", "{a,b}", "<a:2>", "*/", "a/**/b"] {
            out.push(format!("<{}:{}>", body, b));
            out.push(format!("<{}:{},>", body, b));
            out.push(format!("<{}:0,{}>", body, b));
            out.push(format!("<{}:1,{}>", body, b));
            out.push(format!("<{}:{},{}>", body, b, b));
            out.push(format!("<{}:{}>b", body, b));
            out.push(format!("<{}:{},>b", body, b));
            out.push(format!("x<<{}:{}>:{}>", body, b, b));
            out.push(format!("<{}:{},><{}:1,>", body, b, body));
            out.push(format!("<{}:0,{}><b:1,>", body, b));
        }
    }
    // Neighbours of the invariant size limit.
    for n in [65530usize, 65534, 65535, 65536, 65537, 70000] {
        out.push("a".repeat(n));
        out.push(format!("{}/*", "a".repeat(n)));
        out.push(format!("<a:{}>", n));
        out.push(format!("<ab:{}>", n / 2));
        out.push(format!("<?:{}>", n / 4));
        out.push(format!("<[ab]:{}>", n / 4));
    }
    out
}

/// Repetitions of whole components with every bound form, optionally prefixed and followed by an
/// open tail: the shapes on which exhaustiveness and depth verdicts depend.
pub fn component_repetition(rng: &mut Rng) -> String {
    const BODY: &[&str] = &["*/", "*/*/", "a/", "?/", "[ab]*/", "{a,b}/", "<?>/", "a*/", "*a/", "*/a/", "$/", "*/?/"];
    const TAIL: &[&str] = &[
        "*", "**", "", "a*", "*a", "*/**", "?", "$", "{a,b}", "a", "*.rs", "[!.]*", "?*", "?*?*", "?$?*", "*?", "??*", "?*?", "?*/?*", "[ab]*",
        "*[ab]*", "?*/*",
    ];
    const HEAD: &[&str] = &["", "", "", "src/", "a/", "**/", "x", "/", "{a,b}/", "**/", "a/**/"];
    const BNDS: &[&str] = &["", ":", ":0,", ":1,", ":2,", ":0,1", ":0,2", ":0,3", ":1,2", ":1,3", ":2,4", ":2", ":3", ":1", ":0,4"];
    let mut s = String::new();
    let mut nested = false;
    s.push_str(rng.pick_str(HEAD));
    s.push('<');
    if rng.chance(1, 4) {
        // Bodies of several components under an open-ended bound with a non-zero lower bound:
        // unbounded in depth, yet only some depths are matched.
        s.push_str(rng.pick_str(&["*/*/", "*/a/", "*/?/", "?/*/", "*/*/*/", "a/*/", "*/<?>/", "{*/*/}", "{*/}*/", "{?/*/}", "*/{*/}", "{*/*/*/}"]));
        s.push_str(rng.pick_str(&[":1,", ":2,", ":3,", ":1,", ""]));
    }
    else if rng.chance(1, 5) {
        // A bounded repetition of a bounded repetition of components (round 8, C09-I): the depth
        // of the whole is a product of two ranges, zero lower counts included.
        nested = true;
        s.push('<');
        s.push_str(rng.pick_str(&["*/", "*/", "?/", "a/", "*/*/", "[ab]*/", "?*/", "$/"]));
        s.push_str(rng.pick_str(&[":1,2", ":0,2", ":2,3", ":1,3", ":2", ":0,1"]));
        s.push('>');
        s.push_str(rng.pick_str(&[":0,3", ":0,2", ":1,2", ":0,1", ":2,3", ":1,3", ":2", ":0,", ":0,4"]));
    }
    else {
        s.push_str(rng.pick_str(BODY));
        s.push_str(rng.pick_str(BNDS));
    }
    s.push('>');
    if nested && rng.chance(2, 3) {
        // Mostly tails made of wildcards only: what the exhaustiveness scan lets pass.
        s.push_str(rng.pick_str(&["*", "*", "**", "?*", "$", "*/**", "*?", "*/*"]));
        return s;
    }
    s.push_str(rng.pick_str(TAIL));
    if rng.chance(1, 5) {
        s.push('<');
        s.push_str(rng.pick_str(BODY));
        s.push_str(rng.pick_str(BNDS));
        s.push('>');
        s.push_str(rng.pick_str(TAIL));
    }
    s
}

/// Alternations (and repetitions of them) all of whose branches are invariant text, related by a
/// small perturbation of one base text: a separator moved, two characters swapped, one changed
/// in case, dropped or doubled, a run written as a repetition. Whether such an expression has
/// invariant text depends on the branches being *equal*, not merely similar.
pub fn invariant_variants(rng: &mut Rng) -> String {
    const BASES: &[&str] = &["ab/c", "a/bc", "x/yz/w", "abc", "a/b", "src/lib", "a.b/c", "金a/b", "aa/a", "ab/", "a/b/c", "Ab/c"];
    fn perturb(rng: &mut Rng, t: &str) -> String {
        let mut cs: Vec<char> = t.chars().collect();
        match rng.below(7) {
            0 => {
                // Move a separator by one position.
                if let Some(i) = cs.iter().position(|c| *c == '/') {
                    if i + 1 < cs.len() && cs[i + 1] != '/' && rng.chance(1, 2) {
                        cs.swap(i, i + 1);
                    }
                    else if i > 1 && cs[i - 1] != '/' {
                        cs.swap(i, i - 1);
                    }
                }
            },
            1 => {
                // Swap two neighbouring characters that are not separators.
                let idx: Vec<usize> = (0..cs.len().saturating_sub(1)).filter(|i| cs[*i] != '/' && cs[*i + 1] != '/').collect();
                if !idx.is_empty() {
                    let i = idx[rng.below(idx.len())];
                    cs.swap(i, i + 1);
                }
            },
            2 => {
                let idx: Vec<usize> = (0..cs.len()).filter(|i| cs[*i].is_ascii_alphabetic()).collect();
                if !idx.is_empty() {
                    let i = idx[rng.below(idx.len())];
                    cs[i] = if cs[i].is_ascii_lowercase() { cs[i].to_ascii_uppercase() } else { cs[i].to_ascii_lowercase() };
                }
            },
            3 => {
                let idx: Vec<usize> = (0..cs.len()).filter(|i| cs[*i] != '/').collect();
                if idx.len() > 1 {
                    cs.remove(idx[rng.below(idx.len())]);
                }
            },
            4 => {
                let idx: Vec<usize> = (0..cs.len()).filter(|i| cs[*i] != '/').collect();
                if !idx.is_empty() {
                    let i = idx[rng.below(idx.len())];
                    let c = cs[i];
                    cs.insert(i, c);
                }
            },
            6 => {
                // One branch continues the other with whole components.
                return format!("{}/{}", t.trim_end_matches('/'), rng.pick_str(&["b", "c/d", "x"]));
            },
            5 => {
                // The same text with one character written as a once-or-twice repetition.
                let idx: Vec<usize> = (0..cs.len()).filter(|i| cs[*i].is_ascii_alphanumeric()).collect();
                if !idx.is_empty() {
                    let i = idx[rng.below(idx.len())];
                    let head: String = cs[..i].iter().collect();
                    let tail: String = cs[i + 1..].iter().collect();
                    return format!("{}<{}:{}>{}", head, cs[i], rng.range(1, 2), tail);
                }
            },
            _ => {},
        }
        cs.into_iter().collect()
    }
    let base = rng.pick_str(BASES).to_string();
    let mut branches = vec![base.clone()];
    for _ in 0..rng.range(1, 3) {
        let from = branches[rng.below(branches.len())].clone();
        let from = if from.contains('<') { base.clone() } else { from };
        branches.push(perturb(rng, &from));
    }
    if rng.chance(1, 3) {
        rng.shuffle(&mut branches);
    }
    let alt = format!("{{{}}}", branches.join(","));
    match rng.below(10) {
        8 => format!("{}/*", alt.replace("/}", "}").replace("/,", ",")),
        9 => format!("{}/**/*.txt", alt.replace("/}", "}").replace("/,", ",")),
        0 => format!("x/{}", alt),
        1 => format!("{}/y", alt.replace("/}", "}").replace("/,", ",")),
        2 => format!("<{}/:2>", alt.replace("/}", "}").replace("/,", ",")),
        3 => format!("{{{},z}}", alt),
        4 => format!("(?i){}", alt),
        _ => alt,
    }
}

/// Branches in *root position* (nothing to their left) whose first tokens are rooted in various
/// ways and nesting depths, with every bound form: the shapes on which rootedness — of the glob,
/// of its encoding and of what the rule checker admits — depends.
pub fn root_position_shape(rng: &mut Rng) -> String {
    const ROOTED: &[&str] = &["/a", "/", "/**/a", "/**", "/*", "/a/b", "/**/", "/a*"];
    const UNROOTED: &[&str] = &["a", "b/c", "*", "**/a", "a/**", "x*"];
    const BNDS: &[&str] = &["", ":0,", ":1,", ":2,", ":0,1", ":0,3", ":1,2", ":1,3", ":2", ":1", ":0,2", ":3,5"];
    const RIGHT: &[&str] = &["", "", "x", "/x", "b/**", "*", "/**", "{e,f}"];
    fn branch(rng: &mut Rng, depth: usize, out: &mut String) {
        if depth == 0 {
            out.push_str(rng.pick_str(ROOTED));
            return;
        }
        if rng.chance(1, 2) {
            out.push('<');
            branch(rng, depth - 1, out);
            if rng.chance(1, 4) {
                out.push_str(rng.pick_str(&["a", "/", "*"]));
            }
            out.push_str(rng.pick_str(BNDS));
            out.push('>');
        }
        else {
            out.push('{');
            let n = rng.range(1, 3);
            let unrooted_at = if rng.chance(2, 5) { rng.below(n) } else { usize::MAX };
            for j in 0..n {
                if j > 0 {
                    out.push(',');
                }
                if j == unrooted_at {
                    out.push_str(rng.pick_str(UNROOTED));
                }
                else {
                    branch(rng, depth - 1, out);
                    // A rooting branch followed by more tokens of the same alternative (round 8,
                    // C12-I: the check looked at the last token of a multi-token alternative).
                    if rng.chance(1, 3) {
                        out.push_str(rng.pick_str(&["baz", "x", "/y", "*", "b/c", "{e,f}"]));
                    }
                }
            }
            out.push('}');
        }
    }
    let mut e = String::new();
    let depth = rng.range(1, 3);
    branch(rng, depth, &mut e);
    e.push_str(rng.pick_str(RIGHT));
    e
}

/// `.`/`..` components nested inside branches at varied positions of their component (alone,
/// after literal text, before literal text, between wildcards) and nesting depths.
pub fn nested_semantic(rng: &mut Rng) -> String {
    const TEMPLATES: &[&str] = &[
        "@L{@A/@D/@B,@C}@R", "@L<@A/@D/:1,2>@R", "{p,q<r/@D/s>}/t", "@L{@A/@D/@B,@C}", "{@A/@D/@B,@C}@R", "@L?{@A/@D/@B,@C}",
        "<@A/@D/:2>@B", "@A/{@B,@D/@C}", "{@A,@B}/@D/@C", "@A{@B,@C/@D}", "(?i)@A(?-i)@B{@C,<d/@D/e:2>}", "@A/@D/@B", "@D/@A",
        "@A/{@D}/@B", "@A/<@D/:1>@B", "@A{x,y}{@B/@D/@C,d}", "@L{{@A/@D/@B}}@R",
    ];
    let t = *rng.pick(TEMPLATES);
    let mut out = String::new();
    let mut it = t.chars();
    while let Some(c) = it.next() {
        if c == '@' {
            match it.next() {
                Some('D') => out.push_str(rng.pick_str(&["..", ".", "..", "...", ".a"])),
                Some('A') => out.push_str(rng.pick_str(&["a", "b", "src", "x*", "金"])),
                Some('B') => out.push_str(rng.pick_str(&["c", "b", "*.rs", "y"])),
                Some('C') => out.push_str(rng.pick_str(&["d", "e/f", "*"])),
                Some('L') => out.push_str(rng.pick_str(&["", "a", "x/a", "ab", "?"])),
                Some('R') => out.push_str(rng.pick_str(&["", "e", "/t", "?", ""])),
                Some(o) => {
                    out.push('@');
                    out.push(o);
                },
                None => out.push('@'),
            }
        }
        else {
            out.push(c);
        }
    }
    out
}

/// Repetitions whose sub-glob begins or ends — directly or through nested branches — with a
/// boundary, where the inner branch has several tokens: the shapes on which the "boundaries
/// become adjacent once the body repeats" rule depends.
pub fn nested_repetition_edges(rng: &mut Rng) -> String {
    const START: &[&str] = &["/", "", "**/", "/", "a"];
    const MID: &[&str] = &["a", "b", "a*", "", "x/y"];
    const INNER_BODY: &[&str] = &["b/", "b", "/b", "b/**", "**/b", "b/c/", "*"];
    const BNDS: &[&str] = &[":2", ":1,", ":1,2", "", ":0,1", ":3", ":1"];
    fn inner(rng: &mut Rng, depth: usize) -> String {
        let body = if depth > 0 && rng.chance(1, 3) { inner(rng, depth - 1) } else { rng.pick_str(INNER_BODY).to_string() };
        match rng.below(4) {
            0 => format!("{{c,<{}{}>}}", body, rng.pick_str(BNDS)),
            1 => format!("{{{},c/}}", body),
            _ => format!("<{}{}>", body, rng.pick_str(BNDS)),
        }
    }
    let (l, r) = *rng.pick(&[("", ""), ("x", ""), ("", "y"), ("x", "/y"), ("x/", "")]);
    let inn = inner(rng, 2);
    let at_end = rng.chance(2, 3);
    let body = if at_end { format!("{}{}{}", rng.pick_str(START), rng.pick_str(MID), inn) } else { format!("{}{}{}", inn, rng.pick_str(MID), rng.pick_str(&["/", "", "/**", "a"])) };
    format!("{}<{}{}>{}", l, body, rng.pick_str(BNDS), r)
}

/// Groups whose body or branch is exactly one token that is itself a group (one to three levels
/// of such direct nesting), the innermost holding boundaries, tree wildcards or zero-or-more
/// wildcards at its edges, with text before and/or after the outermost group. Position is composed
/// through every level here with nothing in between (round 7, C10-H: a composition that was wrong
/// only when a level reported "only token" went unseen).
pub fn directly_nested_groups(rng: &mut Rng) -> String {
    const INNER: &[&str] = &[
        "a/**/", "c/**/", "/**/a", "**/a", "a/**", "a/", "/a", "a", "b*", "*b", "a/b", "c/d/", "?", "a/**/b", "**/a/**", "/a/", "x*y",
    ];
    const BNDS: &[&str] = &[":1,2", ":2", ":1,", "", ":0,1", ":1", ":2,3", ":0,"];
    fn group(rng: &mut Rng, levels: usize) -> String {
        if levels == 0 {
            return rng.pick_str(INNER).to_string();
        }
        let lonely = |rng: &mut Rng| group(rng, levels - 1);
        if rng.chance(1, 2) {
            // An alternation: the lonely nested group in one branch, plain pieces in the others.
            let n = rng.range(1, 3);
            let at = rng.below(n);
            let mut out = String::from("{");
            for j in 0..n {
                if j > 0 {
                    out.push(',');
                }
                if j == at {
                    out.push_str(&lonely(rng));
                }
                else {
                    out.push_str(rng.pick_str(INNER));
                }
            }
            out.push('}');
            out
        }
        else {
            format!("<{}{}>", lonely(rng), rng.pick_str(BNDS))
        }
    }
    let levels = rng.range(2, 3);
    let g = group(rng, levels);
    let (l, r) = *rng.pick(&[("", "b"), ("", "b"), ("x", ""), ("x", "y"), ("", "/y"), ("x/", ""), ("", ""), ("", "*"), ("x", "/**"), ("**/", "b")]);
    format!("{}{}{}", l, g, r)
}
