pub mod expr;
pub mod path;
