//! Candidate path generators: point mutations and a generic pool.

use crate::prng::Rng;
use crate::refmodel::sample::HOSTILE_CHARS;

pub fn generic_pool() -> Vec<String> {
    let mut v: Vec<String> = [
        "", "/", "//", "a", "b", "A", "a/b", "a/b/c", "./a", "../a", "/a", "a/", "/a/b", "x", "ab",
        ".", "..", "a\nb", "\n", "a/\n/b", "a//b", "/x/y/z", "x/y", "aa", "a.b", ".a", "a b",
    ]
    .iter()
    .map(|s| s.to_string())
    .collect();
    v.push(std::iter::repeat("a").take(40).collect::<Vec<_>>().join("/"));
    v
}

fn flip_case(c: char) -> char {
    if c.is_lowercase() {
        let mut it = c.to_uppercase();
        if let (Some(u), None) = (it.next(), it.next()) {
            return u;
        }
    }
    else if c.is_uppercase() {
        let mut it = c.to_lowercase();
        if let (Some(l), None) = (it.next(), it.next()) {
            return l;
        }
    }
    c
}

/// One random point mutation of `p`.
pub fn mutate(rng: &mut Rng, p: &str, alphabet: &[char]) -> String {
    let chars: Vec<char> = p.chars().collect();
    let pick_char = |rng: &mut Rng| -> char {
        if !alphabet.is_empty() && rng.chance(1, 2) {
            *rng.pick(alphabet)
        }
        else {
            *rng.pick(HOSTILE_CHARS)
        }
    };
    match rng.below(16) {
        0 => {
            let i = rng.below(chars.len() + 1);
            let mut c = chars.clone();
            c.insert(i, pick_char(rng));
            c.into_iter().collect()
        },
        1 if !chars.is_empty() => {
            let i = rng.below(chars.len());
            let mut c = chars.clone();
            c.remove(i);
            c.into_iter().collect()
        },
        2 if !chars.is_empty() => {
            let i = rng.below(chars.len());
            let mut c = chars.clone();
            c[i] = pick_char(rng);
            c.into_iter().collect()
        },
        3 if !chars.is_empty() => {
            let i = rng.below(chars.len());
            let mut c = chars.clone();
            c[i] = flip_case(c[i]);
            c.into_iter().collect()
        },
        4 => {
            let i = rng.below(chars.len() + 1);
            let mut c = chars.clone();
            c.insert(i, '/');
            c.into_iter().collect()
        },
        5 => {
            let i = rng.below(chars.len() + 1);
            let mut c = chars.clone();
            c.insert(i, '\n');
            c.into_iter().collect()
        },
        6 => format!("/{}", p),
        7 => format!("{}/", p),
        8 => {
            // Truncate at a separator.
            let seps: Vec<usize> = chars
                .iter()
                .enumerate()
                .filter(|(_, c)| **c == '/')
                .map(|(i, _)| i)
                .collect();
            if seps.is_empty() {
                String::new()
            }
            else {
                let i = *rng.pick(&seps);
                chars[..i].iter().collect()
            }
        },
        9 => format!("{}/x", p),
        10 => format!("{}/x/y", p),
        11 => {
            // Duplicate a component.
            let comps: Vec<&str> = p.split('/').collect();
            let i = rng.below(comps.len());
            let mut c: Vec<&str> = comps.clone();
            c.insert(i, comps[i]);
            c.join("/")
        },
        12 => {
            // Drop a component.
            let comps: Vec<&str> = p.split('/').collect();
            if comps.len() < 2 {
                return String::new();
            }
            let i = rng.below(comps.len());
            let mut c: Vec<&str> = comps.clone();
            c.remove(i);
            c.join("/")
        },
        13 => {
            // Remove a separator (glue two components).
            let seps: Vec<usize> = chars
                .iter()
                .enumerate()
                .filter(|(_, c)| **c == '/')
                .map(|(i, _)| i)
                .collect();
            if seps.is_empty() {
                format!("{}{}", p, pick_char(rng))
            }
            else {
                let i = *rng.pick(&seps);
                let mut c = chars.clone();
                c.remove(i);
                c.into_iter().collect()
            }
        },
        14 if !chars.is_empty() => {
            // All upper or all lower.
            if rng.chance(1, 2) {
                p.to_uppercase()
            }
            else {
                p.to_lowercase()
            }
        },
        _ => format!("{}{}", p, pick_char(rng)),
    }
}

/// Is `p` canonical in the sense of C08–C10: components non-empty, none equal to `.`, no
/// trailing separator, at most one leading separator.
pub fn is_canonical(p: &str) -> bool {
    if p.is_empty() {
        return true;
    }
    if p == "/" {
        return true;
    }
    let body = p.strip_prefix('/').unwrap_or(p);
    if body.is_empty() || body.ends_with('/') {
        return false;
    }
    body.split('/').all(|c| !c.is_empty() && c != ".")
}

/// Number of non-empty `/`-separated names.
pub fn component_count(p: &str) -> usize {
    p.split('/').filter(|c| !c.is_empty()).count()
}
