//! Run context shared by the monitors: tier, seed, known findings, crash-attribution log.

use std::cell::RefCell;
use std::fs::File;
use std::io::{Seek, SeekFrom, Write};

use crate::findings::KnownFindings;
use crate::gen::expr as gexpr;
use crate::prng::Rng;

#[derive(Clone, Copy, Debug, PartialEq, Eq)]
pub enum Tier {
    Quick,
    Thorough,
}

impl Tier {
    pub fn name(&self) -> &'static str {
        match self {
            Tier::Quick => "quick",
            Tier::Thorough => "thorough",
        }
    }
}

pub struct Ctx {
    pub tier: Tier,
    pub seed: u64,
    pub known: KnownFindings,
    cur: RefCell<Option<File>>,
    pub scratch: String,
}

impl Ctx {
    pub fn new(tier: Tier, seed: u64, known: KnownFindings, cur_path: Option<&str>, scratch: &str) -> Self {
        let cur = cur_path.and_then(|p| File::create(p).ok());
        Ctx {
            tier,
            seed,
            known,
            cur: RefCell::new(cur),
            scratch: scratch.to_string(),
        }
    }

    /// Records the operation about to be executed (written before calling into the code under
    /// test, so a worker killed by a signal leaves the in-flight case identifiable).
    pub fn begin(&self, idx: usize, what: &str) {
        if let Some(f) = self.cur.borrow_mut().as_mut() {
            let mut text = String::with_capacity(64 + what.len().min(600));
            text.push_str(&idx.to_string());
            text.push('\n');
            if what.len() > 600 {
                let mut end = 300;
                while !what.is_char_boundary(end) {
                    end -= 1;
                }
                text.push_str(&what[..end]);
                text.push_str(&format!("…[len={} hash={}]", what.len(), crate::prng::hash_str(what)));
            }
            else {
                text.push_str(what);
            }
            text.push('\n');
            let _ = f.seek(SeekFrom::Start(0));
            let _ = f.set_len(0);
            let _ = f.write_all(text.as_bytes());
        }
    }
}

/// Deterministic stream of expressions for groups A and B.
pub struct ExprStream {
    corpus: Vec<String>,
    sweep: Vec<String>,
    pub generated: usize,
    pub mutated: usize,
    pub shapes: usize,
    pub comp_reps: usize,
    seed: u64,
    /// Thorough tier: one generated expression in ten is drawn with deeper nesting and more tokens.
    deep: bool,
}

impl ExprStream {
    pub fn new(tier: Tier, seed: u64, scale: usize) -> Self {
        let corpus = gexpr::corpus();
        let (sweep_len, generated, mutated, shapes) = match tier {
            Tier::Quick => (2, 9000 * scale / 10, 4000 * scale / 10, 2500 * scale / 10),
            Tier::Thorough => (4, 400000 * scale / 10, 150000 * scale / 10, 80000 * scale / 10),
        };
        ExprStream {
            corpus,
            sweep: gexpr::sweep(sweep_len),
            generated,
            mutated,
            shapes,
            comp_reps: generated / 5,
            seed,
            deep: tier == Tier::Thorough,
        }
    }

    pub fn len(&self) -> usize {
        self.corpus.len() + self.sweep.len() + self.generated + self.mutated + self.shapes + self.comp_reps
    }

    pub fn corpus_len(&self) -> usize {
        self.corpus.len()
    }

    pub fn at(&self, idx: usize) -> String {
        let mut i = idx;
        if i < self.corpus.len() {
            return self.corpus[i].clone();
        }
        i -= self.corpus.len();
        if i < self.sweep.len() {
            return self.sweep[i].clone();
        }
        i -= self.sweep.len();
        if i < self.generated {
            let mut rng = Rng::derive(self.seed, "expr-gen", i as u64);
            let mut cfg = gexpr::Config::default();
            match i % 5 {
                0 => {
                    cfg.max_tokens = 3;
                    cfg.max_depth = 2;
                },
                1 => {
                    cfg.obey = 60;
                },
                2 => {
                    cfg.max_tokens = 7;
                },
                3 => {
                    cfg.flags = false;
                    cfg.unicode = false;
                },
                _ => {},
            }
            if self.deep && i % 10 == 9 {
                cfg.max_depth = 5;
                cfg.max_tokens = 8;
            }
            let mut g = gexpr::Gen { rng: &mut rng, cfg };
            return g.expr();
        }
        i -= self.generated;
        if i < self.mutated {
            let mut rng = Rng::derive(self.seed, "expr-mut", i as u64);
            let base = self.corpus[rng.below(self.corpus.len())].clone();
            let mut e = gexpr::mutate(&mut rng, &base);
            if rng.chance(1, 3) {
                e = gexpr::mutate(&mut rng, &e);
            }
            return e;
        }
        i -= self.mutated;
        if i >= self.shapes {
            let mut rng = Rng::derive(self.seed, "expr-comp-rep", (i - self.shapes) as u64);
            if (i - self.shapes) % 4 == 3 {
                return gexpr::invariant_variants(&mut rng);
            }
            return gexpr::component_repetition(&mut rng);
        }
        let mut rng = Rng::derive(self.seed, "expr-shape", i as u64);
        match i % 12 {
            2 | 5 | 8 => return gexpr::root_position_shape(&mut rng),
            11 => return gexpr::nested_semantic(&mut rng),
            7 => return gexpr::nested_repetition_edges(&mut rng),
            4 | 10 => return gexpr::directly_nested_groups(&mut rng),
            _ => {},
        }
        gexpr::branch_shapes(&mut rng, 1).pop().unwrap_or_default()
    }
}
