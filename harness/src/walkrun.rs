//! Running real walks (path walks and glob walks) under stacks of combinators and recording what
//! they produce: items, closure calls and the hooked `WalkTree` event log.

use std::cell::RefCell;
use std::path::{Path, PathBuf};
use std::rc::Rc;

use wax::walk::{Entry, EntryResidue, FileIterator, GlobEntry, TreeEntry, VerifEvent, WalkBehavior};
use wax::{Any, Glob};

use crate::prng::hash_str;

#[derive(Clone, Debug)]
pub struct Item {
    pub path: Option<PathBuf>,
    pub is_err: bool,
    pub root: PathBuf,
    pub relative: PathBuf,
    pub depth: usize,
    pub is_dir: bool,
    pub matched: Option<String>,
    pub candidate: Option<String>,
    /// Capture texts 0..4 of the matched text (glob walks).
    pub captures: Vec<Option<String>>,
    pub error: Option<String>,
    /// Error items converted with the documented `io::Error::from(WalkError)`: the text of the
    /// converted error and the path and depth of the `WalkError` it carries, if it carries one.
    pub io_error: Option<(String, Option<(Option<PathBuf>, usize)>)>,
}

pub trait Describe {
    fn describe(&self) -> (Option<String>, Option<String>, Vec<Option<String>>);
}

impl Describe for TreeEntry {
    fn describe(&self) -> (Option<String>, Option<String>, Vec<Option<String>>) {
        (None, None, Vec::new())
    }
}

impl Describe for GlobEntry {
    fn describe(&self) -> (Option<String>, Option<String>, Vec<Option<String>>) {
        let m = self.matched();
        (
            Some(m.complete().to_string()),
            Some(self.to_candidate_path().to_string()),
            (0..5).map(|i| m.get(i).map(|s| s.to_string())).collect(),
        )
    }
}

/// What a `filter_entry` layer does: a pure function of the entry's path.
#[derive(Clone)]
pub struct FilterFn {
    pub seed: u64,
    /// Tree root used to make the verdict independent of where the scratch directory lives.
    pub tree_root: PathBuf,
    /// 0 = observer (always keeps).
    pub mode: u8,
    pub log: Rc<RefCell<Vec<PathBuf>>>,
}

pub fn stable_text(path: &Path, tree_root: &Path) -> String {
    match path.strip_prefix(tree_root) {
        Ok(r) => r.to_string_lossy().to_string(),
        Err(_) => {
            // Outside the tree root (walks that climb with `..`): use the trailing components.
            let comps: Vec<String> = path
                .components()
                .rev()
                .take(2)
                .map(|c| c.as_os_str().to_string_lossy().to_string())
                .collect();
            format!("<outside>/{}", comps.join("/"))
        },
    }
}

pub fn verdict_of(seed: u64, mode: u8, text: &str) -> Option<EntryResidue> {
    if mode == 0 {
        return None;
    }
    let h = hash_str(&format!("{}|{}", seed, text)) % 16;
    match mode {
        // Mixed verdicts.
        1 => match h {
            0..=9 => None,
            10..=12 => Some(EntryResidue::File),
            _ => Some(EntryResidue::Tree),
        },
        // Mostly trees.
        2 => match h {
            0..=7 => None,
            _ => Some(EntryResidue::Tree),
        },
        // Files only.
        _ => match h {
            0..=9 => None,
            _ => Some(EntryResidue::File),
        },
    }
}

impl FilterFn {
    pub fn call(&self, entry: &dyn Entry) -> Option<EntryResidue> {
        self.log.borrow_mut().push(entry.path().to_path_buf());
        verdict_of(self.seed, self.mode, &stable_text(entry.path(), &self.tree_root))
    }
}

#[derive(Clone)]
pub enum LayerRt {
    NotText(String),
    NotGlob(Glob<'static>),
    NotAny(Any<'static>),
    Filter(FilterFn),
}

fn consume<I>(it: I, out: &mut Vec<Item>, limit: usize)
where
    I: FileIterator,
    I::Entry: Describe,
{
    for item in it {
        if out.len() >= limit {
            break;
        }
        match item {
            Ok(e) => {
                let (root, relative) = e.root_relative_paths();
                let (matched, candidate, captures) = e.describe();
                out.push(Item {
                    path: Some(e.path().to_path_buf()),
                    is_err: false,
                    root: root.to_path_buf(),
                    relative: relative.to_path_buf(),
                    depth: e.depth(),
                    is_dir: e.file_type().is_dir(),
                    matched,
                    candidate,
                    captures,
                    error: None,
                    io_error: None,
                });
            },
            Err(err) => {
                let path = err.path().map(|p| p.to_path_buf());
                let depth = err.depth();
                let text = err.to_string();
                let io: std::io::Error = err.into();
                let carried = io
                    .get_ref()
                    .and_then(|e| e.downcast_ref::<wax::walk::WalkError>())
                    .map(|w| (w.path().map(|p| p.to_path_buf()), w.depth()));
                out.push(Item {
                    path,
                    is_err: true,
                    root: PathBuf::new(),
                    relative: PathBuf::new(),
                    depth,
                    is_dir: false,
                    matched: None,
                    candidate: None,
                    captures: Vec::new(),
                    error: Some(text),
                    io_error: Some((io.to_string(), carried)),
                });
            },
        }
    }
}

macro_rules! apply_level {
    ($name:ident, $next:ident) => {
        fn $name<I>(it: I, layers: &[LayerRt], out: &mut Vec<Item>, limit: usize) -> Result<(), String>
        where
            I: FileIterator + 'static,
            I::Entry: 'static + Describe,
            I::Residue: 'static,
        {
            match layers.split_first() {
                None => {
                    consume(it, out, limit);
                    Ok(())
                },
                Some((layer, rest)) => match layer {
                    LayerRt::NotText(p) => {
                        let n = it.not(p.as_str()).map_err(|e| e.to_string())?;
                        $next(n, rest, out, limit)
                    },
                    LayerRt::NotGlob(g) => {
                        let n = it.not(g.clone()).map_err(|e| e.to_string())?;
                        $next(n, rest, out, limit)
                    },
                    LayerRt::NotAny(a) => {
                        let n = it.not(a.clone()).map_err(|e| e.to_string())?;
                        $next(n, rest, out, limit)
                    },
                    LayerRt::Filter(f) => {
                        let f = f.clone();
                        $next(it.filter_entry(move |e: &dyn Entry| f.call(e)), rest, out, limit)
                    },
                },
            }
        }
    };
}

fn apply0<I>(it: I, layers: &[LayerRt], out: &mut Vec<Item>, limit: usize) -> Result<(), String>
where
    I: FileIterator + 'static,
    I::Entry: 'static + Describe,
    I::Residue: 'static,
{
    if !layers.is_empty() {
        return Err("too many layers".to_string());
    }
    consume(it, out, limit);
    Ok(())
}
apply_level!(apply1, apply0);
apply_level!(apply2, apply1);
apply_level!(apply3, apply2);
apply_level!(apply4, apply3);

pub struct Observed {
    pub items: Vec<Item>,
    pub events: Vec<VerifEvent>,
    pub error: Option<String>,
}

pub const ITEM_LIMIT: usize = 20_000;

thread_local! {
    static WALK_SEQ: std::cell::Cell<u64> = const { std::cell::Cell::new(0) };
}

/// Sequence number of the most recent walk on this thread (syscall-marker tier).
pub fn last_walk_seq() -> u64 {
    WALK_SEQ.with(|s| s.get())
}

pub fn syscall_markers_enabled() -> bool {
    std::env::var_os("WAXMON_SYSCALL_MARKERS").is_some()
}

/// Emits a recognisable `access()` call so that an external syscall trace can be cut into walks.
fn marker(kind: &str, seq: u64) {
    if syscall_markers_enabled() {
        let path = format!("/waxmon-marker/{}/{}/{}\0", kind, std::process::id(), seq);
        unsafe {
            libc::access(path.as_ptr() as *const libc::c_char, libc::F_OK);
        }
    }
}

/// Walks `base` (a path walk, or a glob walk if `glob` is given) through the layers.
pub fn run(base: &Path, glob: Option<&Glob<'_>>, behavior: WalkBehavior, layers: &[LayerRt]) -> Observed {
    use wax::walk::PathExt;
    let _ = wax::walk::verif_take_events();
    let mut items = Vec::new();
    let seq = WALK_SEQ.with(|s| {
        s.set(s.get() + 1);
        s.get()
    });
    marker("begin", seq);
    let r = match glob {
        Some(g) => apply4(g.walk_with_behavior(base.to_path_buf(), behavior), layers, &mut items, ITEM_LIMIT),
        None => apply4(base.walk_with_behavior(behavior), layers, &mut items, ITEM_LIMIT),
    };
    marker("end", seq);
    let events = wax::walk::verif_take_events();
    Observed {
        items,
        events,
        error: r.err(),
    }
}
