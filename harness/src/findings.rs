//! Known findings: read from the committed file `/verif/KNOWN_FINDINGS.txt`; never written.
//!
//! Line formats:
//!   finding: property=<id> key=<signature> witness=<json> :: <what fails>
//!   fixed: property=<id> <commit> <what failed>
//! A `fixed:` line suppresses nothing.

use std::collections::BTreeMap;

#[derive(Clone, Debug)]
pub struct Finding {
    pub prop: String,
    pub key: String,
    pub witness: String,
    pub what: String,
}

#[derive(Clone, Debug, Default)]
pub struct KnownFindings {
    pub findings: Vec<Finding>,
    index: BTreeMap<(String, String), usize>,
}

impl KnownFindings {
    pub fn load(path: &str) -> Self {
        let mut out = KnownFindings::default();
        let text = match std::fs::read_to_string(path) {
            Ok(t) => t,
            Err(_) => return out,
        };
        for line in text.lines() {
            let line = line.trim();
            if !line.starts_with("finding:") {
                continue;
            }
            let rest = line["finding:".len()..].trim();
            let (head, what) = match rest.split_once(" :: ") {
                Some((h, w)) => (h, w),
                None => (rest, ""),
            };
            let mut prop = String::new();
            let mut key = String::new();
            let mut witness = String::new();
            // property=<id> key=<sig> witness=<json to end of head>
            let mut h = head;
            if let Some(i) = h.find("witness=") {
                witness = h[i + "witness=".len()..].trim().to_string();
                h = &h[..i];
            }
            for part in h.split_whitespace() {
                if let Some(v) = part.strip_prefix("property=") {
                    prop = v.to_string();
                }
                else if let Some(v) = part.strip_prefix("key=") {
                    key = v.to_string();
                }
            }
            if prop.is_empty() || key.is_empty() {
                continue;
            }
            out.index
                .insert((prop.clone(), key.clone()), out.findings.len());
            out.findings.push(Finding {
                prop,
                key,
                witness,
                what: what.to_string(),
            });
        }
        out
    }

    pub fn is_listed(&self, prop: &str, key: &str) -> bool {
        self.index.contains_key(&(prop.to_string(), key.to_string()))
    }

    pub fn get(&self, prop: &str, key: &str) -> Option<&Finding> {
        self.index
            .get(&(prop.to_string(), key.to_string()))
            .map(|i| &self.findings[*i])
    }

    pub fn for_prop<'a>(&'a self, prop: &'a str) -> impl Iterator<Item = &'a Finding> + 'a {
        self.findings.iter().filter(move |f| f.prop == prop)
    }
}
