//! Parent (sharding, crash attribution, merge, evidence, verdict) and worker entry points.

use serde_json::{json, Value};
use std::collections::BTreeMap;
use std::fs;
use std::os::unix::fs::PermissionsExt;
use std::os::unix::process::{CommandExt, ExitStatusExt};
use std::process::{Child, Command, Stdio};
use std::time::{Duration, Instant};

use crate::ctx::{Ctx, Tier};
use crate::findings::KnownFindings;
use crate::monitors::{self, Group};
use crate::prng::hash_str;
use crate::report::Report;

pub fn root_dir() -> String {
    std::env::var("WAXMON_ROOT").unwrap_or_else(|_| "/verif".to_string())
}

fn parse_tier(s: &str) -> Option<Tier> {
    match s {
        "quick" => Some(Tier::Quick),
        "thorough" => Some(Tier::Thorough),
        _ => None,
    }
}

fn seed_from_env() -> u64 {
    std::env::var("VERIF_SEED")
        .ok()
        .and_then(|s| s.trim().parse::<i64>().ok())
        .map(|v| v as u64)
        .unwrap_or(1)
}

// ------------------------------------------------------------------------------------------
// Worker
// ------------------------------------------------------------------------------------------

thread_local! {
    pub static LAST_PANIC: std::cell::RefCell<Option<(String, String)>> = const { std::cell::RefCell::new(None) };
}

pub fn install_panic_hook() {
    std::panic::set_hook(Box::new(|info| {
        let loc = info
            .location()
            .map(|l| format!("{}:{}", l.file(), l.line()))
            .unwrap_or_default();
        let msg = if let Some(s) = info.payload().downcast_ref::<&str>() {
            (*s).to_string()
        }
        else if let Some(s) = info.payload().downcast_ref::<String>() {
            s.clone()
        }
        else {
            String::from("<non-string payload>")
        };
        LAST_PANIC.with(|p| *p.borrow_mut() = Some((loc, msg)));
    }));
}

pub fn take_last_panic() -> Option<(String, String)> {
    LAST_PANIC.with(|p| p.borrow_mut().take())
}

fn write_report(path: &str, rpt: &Report) {
    let tmp = format!("{}.tmp", path);
    if fs::write(&tmp, rpt.to_json().to_string()).is_ok() {
        let _ = fs::rename(&tmp, path);
    }
}

pub fn worker(args: &[String]) -> i32 {
    if args.len() < 7 {
        eprintln!("worker: bad arguments");
        return 2;
    }
    let prop = &args[0];
    let tier = match parse_tier(&args[1]) {
        Some(t) => t,
        None => return 2,
    };
    let seed: u64 = args[2].parse().unwrap_or(1);
    let shard: usize = args[3].parse().unwrap_or(0);
    let nshards: usize = args[4].parse().unwrap_or(1);
    let outfile = &args[5];
    let scratch = &args[6];
    let from: usize = args.get(7).and_then(|s| s.parse().ok()).unwrap_or(0);
    let skip: Vec<usize> = args
        .get(8)
        .map(|s| s.split(',').filter_map(|x| x.parse().ok()).collect())
        .unwrap_or_default();
    let to: Option<usize> = args.get(9).and_then(|s| s.parse().ok());
    install_panic_hook();
    // The parent stages a copy of the known-findings file in the scratch directory, so that an
    // unprivileged worker reads the same list whatever the permissions of the checkout are. A
    // worker that cannot read it is a harness error, never a verdict.
    let known_path = format!("{}/KNOWN_FINDINGS.txt", scratch);
    if fs::metadata(&known_path).is_err() {
        eprintln!("worker: cannot read {}", known_path);
        return 2;
    }
    let known = KnownFindings::load(&known_path);
    let mut monitor = match monitors::make(prop, tier, seed) {
        Some(m) => m,
        None => {
            eprintln!("worker: unknown property {}", prop);
            return 2;
        },
    };
    let cur = format!("{}.cur", outfile);
    let ctx = Ctx::new(tier, seed, known, Some(&cur), scratch);
    // Resume from a partial report if present.
    let mut rpt = fs::read_to_string(outfile)
        .ok()
        .and_then(|t| serde_json::from_str::<Value>(&t).ok())
        .and_then(|v| Report::from_json(&v))
        .unwrap_or_else(|| Report::new(prop));
    let total = monitor.total_cases(tier, seed);
    let end = to.unwrap_or(total).min(total);
    if from == 0 && shard == 0 && to.is_none() {
        ctx.begin(usize::MAX, "prologue");
        monitor.prologue(&ctx, &mut rpt);
    }
    let mut since_flush = 0;
    let mut last_flush = Instant::now();
    let mut idx = from;
    // Align to this shard.
    while idx < end && idx % nshards != shard {
        idx += 1;
    }
    while idx < end {
        if !skip.contains(&idx) {
            rpt.cur_idx = idx as i64;
            monitor.run_case(idx, &ctx, &mut rpt);
        }
        rpt.done_through = idx as i64;
        since_flush += 1;
        if since_flush >= 64 || last_flush.elapsed() > Duration::from_secs(5) {
            write_report(outfile, &rpt);
            since_flush = 0;
            last_flush = Instant::now();
        }
        idx += nshards;
    }
    ctx.begin(usize::MAX, "epilogue");
    monitor.epilogue(&ctx, &mut rpt);
    rpt.done_through = i64::MAX;
    write_report(outfile, &rpt);
    0
}

// ------------------------------------------------------------------------------------------
// Parent
// ------------------------------------------------------------------------------------------

struct Shard {
    index: usize,
    child: Option<Child>,
    outfile: String,
    skip: Vec<usize>,
    respawns: usize,
    last_cur: String,
    last_change: Instant,
    done: bool,
}

fn read_cur(outfile: &str) -> (Option<usize>, String) {
    let text = fs::read_to_string(format!("{}.cur", outfile)).unwrap_or_default();
    let mut lines = text.splitn(2, '\n');
    let idx = lines.next().and_then(|l| l.trim().parse::<usize>().ok());
    let what = lines.next().unwrap_or("").trim_end_matches('\n').to_string();
    (idx, what)
}

fn load_report(outfile: &str, prop: &str) -> Report {
    fs::read_to_string(outfile)
        .ok()
        .and_then(|t| serde_json::from_str::<Value>(&t).ok())
        .and_then(|v| Report::from_json(&v))
        .unwrap_or_else(|| Report::new(prop))
}

fn spawn(
    exe: &std::path::Path,
    prop: &str,
    tier: Tier,
    seed: u64,
    shard: &Shard,
    nshards: usize,
    scratch: &str,
    from: usize,
    unprivileged: bool,
    to: Option<usize>,
) -> std::io::Result<Child> {
    let mut cmd = Command::new(exe);
    cmd.arg("worker")
        .arg(prop)
        .arg(tier.name())
        .arg(seed.to_string())
        .arg(shard.index.to_string())
        .arg(nshards.to_string())
        .arg(&shard.outfile)
        .arg(scratch)
        .arg(from.to_string())
        .arg(
            shard
                .skip
                .iter()
                .map(|s| s.to_string())
                .collect::<Vec<_>>()
                .join(","),
        );
    if let Some(to) = to {
        cmd.arg(to.to_string());
    }
    cmd.stdin(Stdio::null());
    let log = fs::OpenOptions::new()
        .create(true)
        .append(true)
        .open(format!("{}.log", shard.outfile))?;
    let _ = fs::set_permissions(format!("{}.log", shard.outfile), fs::Permissions::from_mode(0o666));
    cmd.stdout(log.try_clone()?);
    cmd.stderr(log);
    cmd.current_dir(scratch);
    if unprivileged {
        cmd.uid(65534).gid(65534);
    }
    cmd.spawn()
}

pub fn run(args: &[String]) -> i32 {
    let started = Instant::now();
    if args.len() < 2 {
        eprintln!("usage: waxmon run <Cxx> <quick|thorough> [--replay <file>]");
        return 2;
    }
    let prop = args[0].clone();
    let mut tier = match parse_tier(&args[1]) {
        Some(t) => t,
        None => {
            eprintln!("unknown tier {}", args[1]);
            return 2;
        },
    };
    let mut seed = seed_from_env();
    let mut replay: Option<(usize, String)> = None;
    if args.get(2).map(|s| s.as_str()) == Some("--replay") {
        let path = match args.get(3) {
            Some(p) => p,
            None => return 2,
        };
        let v: Value = match fs::read_to_string(path).ok().and_then(|t| serde_json::from_str(&t).ok()) {
            Some(v) => v,
            None => {
                eprintln!("cannot read replay file {}", path);
                return 2;
            },
        };
        seed = v.get("seed").and_then(|s| s.as_u64()).unwrap_or(seed);
        if let Some(t) = v.get("tier").and_then(|t| t.as_str()).and_then(parse_tier) {
            tier = t;
        }
        let idx = v
            .get("witness")
            .and_then(|w| w.get("case_index"))
            .and_then(|i| i.as_u64())
            .unwrap_or(0) as usize;
        replay = Some((idx, path.clone()));
    }
    let root = root_dir();
    if fs::metadata(format!("{}/KNOWN_FINDINGS.txt", root)).is_err() {
        eprintln!("cannot read {}/KNOWN_FINDINGS.txt (harness error, not a verdict)", root);
        return 2;
    }
    let known = KnownFindings::load(&format!("{}/KNOWN_FINDINGS.txt", root));
    let monitor = match monitors::make(&prop, tier, seed) {
        Some(m) => m,
        None => {
            eprintln!("unknown property {}", prop);
            return 2;
        },
    };
    let meta = monitor.meta();
    let total = monitor.total_cases(tier, seed);
    drop(monitor);
    let cores = std::thread::available_parallelism().map(|n| n.get()).unwrap_or(4);
    let nshards = if replay.is_some() { 1 } else { cores.min(16).max(1) };
    let exe = std::env::current_exe().expect("current_exe");
    // Scratch directory (worker output, temp trees). Writable by the unprivileged workers.
    let scratch = {
        let base = std::env::temp_dir();
        let name = format!("waxmon-{}-{}-{:x}", prop, std::process::id(), hash_str(&format!("{:?}", Instant::now())));
        let p = base.join(name);
        fs::create_dir_all(&p).expect("scratch dir");
        let _ = fs::set_permissions(&p, fs::Permissions::from_mode(0o777));
        p.to_string_lossy().to_string()
    };
    let is_root = unsafe { libc::geteuid() } == 0;
    let unprivileged = meta.group == Group::Walk && is_root;
    // Stage what the workers need inside the scratch directory: the known-findings list and, for
    // unprivileged workers, the executable itself (the checkout may live under a directory that
    // the unprivileged user cannot traverse).
    if let Err(e) = fs::copy(format!("{}/KNOWN_FINDINGS.txt", root), format!("{}/KNOWN_FINDINGS.txt", scratch)) {
        eprintln!("cannot stage KNOWN_FINDINGS.txt from {}: {}", root, e);
        let _ = fs::remove_dir_all(&scratch);
        return 2;
    }
    let _ = fs::set_permissions(format!("{}/KNOWN_FINDINGS.txt", scratch), fs::Permissions::from_mode(0o644));
    let exe = if unprivileged {
        let staged = std::path::PathBuf::from(format!("{}/waxmon-worker", scratch));
        if let Err(e) = fs::copy(&exe, &staged) {
            eprintln!("cannot stage worker executable: {}", e);
            let _ = fs::remove_dir_all(&scratch);
            return 2;
        }
        let _ = fs::set_permissions(&staged, fs::Permissions::from_mode(0o755));
        staged
    }
    else {
        exe
    };
    let case_timeout = Duration::from_secs(
        std::env::var("WAXMON_CASE_TIMEOUT")
            .ok()
            .and_then(|s| s.parse().ok())
            .unwrap_or(120),
    );
    let mut shards: Vec<Shard> = (0..nshards)
        .map(|i| Shard {
            index: i,
            child: None,
            outfile: format!("{}/shard{}.json", scratch, i),
            skip: Vec::new(),
            respawns: 0,
            last_cur: String::new(),
            last_change: Instant::now(),
            done: false,
        })
        .collect();
    let (from0, to0) = match &replay {
        Some((idx, _)) => (*idx, Some(*idx + 1)),
        None => (0, None),
    };
    let mut crashes: Vec<Value> = Vec::new();
    let mut timeouts: Vec<Value> = Vec::new();
    for s in shards.iter_mut() {
        match spawn(&exe, &prop, tier, seed, s, nshards, &scratch, from0, unprivileged, to0) {
            Ok(c) => s.child = Some(c),
            Err(e) => {
                eprintln!("cannot spawn worker: {}", e);
                let _ = fs::remove_dir_all(&scratch);
                return 2;
            },
        }
        s.last_change = Instant::now();
    }
    loop {
        let mut all_done = true;
        for s in shards.iter_mut() {
            if s.done {
                continue;
            }
            all_done = false;
            let status = match s.child.as_mut().unwrap().try_wait() {
                Ok(st) => st,
                Err(_) => None,
            };
            let mut failed: Option<String> = None;
            match status {
                Some(st) if st.success() => {
                    s.done = true;
                    continue;
                },
                Some(st) => {
                    failed = Some(match st.signal() {
                        Some(sig) => format!("signal {}", sig),
                        None => format!("exit status {}", st.code().unwrap_or(-1)),
                    });
                },
                None => {
                    // Watchdog on the in-flight case.
                    let cur = fs::read_to_string(format!("{}.cur", s.outfile)).unwrap_or_default();
                    if cur != s.last_cur {
                        s.last_cur = cur;
                        s.last_change = Instant::now();
                    }
                    else if s.last_change.elapsed() > case_timeout {
                        let _ = s.child.as_mut().unwrap().kill();
                        let _ = s.child.as_mut().unwrap().wait();
                        failed = Some("watchdog".to_string());
                    }
                },
            }
            if let Some(reason) = failed {
                let (idx, what) = read_cur(&s.outfile);
                let partial = load_report(&s.outfile, &prop);
                let rec = json!({"shard": s.index, "case_index": idx, "what": what, "reason": reason});
                if reason == "watchdog" {
                    timeouts.push(rec);
                }
                else {
                    crashes.push(rec);
                }
                if let Some(i) = idx {
                    if i != usize::MAX {
                        s.skip.push(i);
                    }
                }
                s.respawns += 1;
                if s.respawns > 400 || replay.is_some() {
                    s.done = true;
                    continue;
                }
                let from = if partial.done_through < 0 { from0 } else { (partial.done_through as usize).saturating_add(1) };
                match spawn(&exe, &prop, tier, seed, s, nshards, &scratch, from, unprivileged, to0) {
                    Ok(c) => {
                        s.child = Some(c);
                        s.last_change = Instant::now();
                    },
                    Err(_) => s.done = true,
                }
            }
        }
        if all_done {
            break;
        }
        std::thread::sleep(Duration::from_millis(25));
    }
    // Merge.
    let mut merged = Report::new(&prop);
    let mut incomplete = 0;
    for s in &shards {
        let r = load_report(&s.outfile, &prop);
        if r.done_through != i64::MAX {
            incomplete += 1;
        }
        merged.merge(r);
    }
    // Crashes: C05 judges them; elsewhere they are counted.
    for c in &crashes {
        if prop == "C05" {
            let what = c.get("what").and_then(|w| w.as_str()).unwrap_or("");
            let reason = c.get("reason").and_then(|w| w.as_str()).unwrap_or("");
            let key = monitors::classify_crash(what, reason);
            merged.cur_idx = c.get("case_index").and_then(|i| i.as_i64()).unwrap_or(-1);
            merged.disagreement(&known, "process-died-while-building-or-querying", key, c.clone());
        }
        else {
            merged.inconclusive("worker-crash(judged by C05)", c.clone());
        }
    }
    for t in &timeouts {
        merged.inconclusive("watchdog-timeout", t.clone());
    }
    merged.crashes = crashes.clone();
    // Sanitizer tier (thorough, C05 and C19): the reduced operation mix under Miri.
    let mut miri_summary = Value::Null;
    if tier == Tier::Thorough && replay.is_none() && (prop == "C05" || prop == "C19") {
        let (summary, failures) = miri_tier(&root, seed);
        for f in failures {
            merged.cur_idx = -1;
            merged.disagreement(&known, "miri-reports-undefined-behaviour-or-a-failed-assertion", None, f);
        }
        miri_summary = summary;
    }
    let mut strace_summary = Value::Null;
    if tier == Tier::Thorough && replay.is_none() && prop == "C13" {
        let (summary, failures) = strace_tier(&exe, seed);
        for f in failures {
            merged.cur_idx = f.get("case_index").and_then(|i| i.as_i64()).unwrap_or(-1);
            merged.disagreement(&known, "syscall-trace-shows-a-discarded-directory-read-or-a-kept-directory-not-read", None, f);
        }
        strace_summary = summary;
    }
    let wall = started.elapsed().as_secs_f64();
    // Verdict.
    let nviol: u64 = merged.violations.values().map(|v| v.0).sum();
    let mut missing_floors: Vec<&str> = Vec::new();
    if replay.is_none() {
        for f in meta.floors {
            if merged.buckets.get(*f).copied().unwrap_or(0) == 0 {
                missing_floors.push(f);
            }
        }
    }
    // Evidence.
    let _ = fs::create_dir_all(format!("{}/evidence", root));
    let mut coverage = serde_json::Map::new();
    coverage.insert("evaluations".into(), json!(merged.evaluations));
    coverage.insert("distinct_nontrivial".into(), json!(merged.nontrivial.len()));
    coverage.insert("rule".into(), json!(meta.rule));
    coverage.insert("samples".into(), Value::Array(merged.samples.clone()));
    coverage.insert("cases_planned".into(), json!(total));
    coverage.insert(
        "listed_findings_not_observed".into(),
        json!(known
            .for_prop(&prop)
            .filter(|f| !merged.known.contains_key(&f.key))
            .map(|f| f.key.clone())
            .collect::<Vec<_>>()),
    );
    coverage.insert("shards".into(), json!(nshards));
    coverage.insert("shards_incomplete".into(), json!(incomplete));
    coverage.insert("observed".into(), json!(merged.buckets));
    coverage.insert(
        "inconclusive".into(),
        Value::Object(
            merged
                .inconclusive
                .iter()
                .map(|(k, (n, w))| (k.clone(), json!({"count": n, "example": w})))
                .collect(),
        ),
    );
    coverage.insert(
        "known_findings_observed".into(),
        Value::Object(
            merged
                .known
                .iter()
                .map(|(k, (n, w))| (k.clone(), json!({"count": n, "example": w})))
                .collect(),
        ),
    );
    coverage.insert(
        "violation_signatures".into(),
        Value::Object(
            merged
                .violations
                .iter()
                .map(|(k, (n, w))| (k.clone(), json!({"count": n, "witnesses": w})))
                .collect(),
        ),
    );
    coverage.insert("worker_crashes".into(), json!(crashes.len()));
    coverage.insert("watchdog_timeouts".into(), json!(timeouts.len()));
    coverage.insert("coverage_floors".into(), json!(meta.floors));
    coverage.insert("coverage_floors_missed".into(), json!(missing_floors));
    coverage.insert("unprivileged_workers".into(), json!(unprivileged || !is_root));
    coverage.insert("repo_fingerprint".into(), json!(repo_fingerprint()));
    if !strace_summary.is_null() {
        coverage.insert("syscall_trace_tier".into(), strace_summary);
    }
    if !miri_summary.is_null() {
        coverage.insert("miri_tier".into(), miri_summary);
    }
    if replay.is_none() {
        let evidence = json!({
            "property_id": prop,
            "tier": tier.name(),
            "seed": seed as i64,
            "level": meta.level,
            "coverage": Value::Object(coverage),
            "assumptions": meta.assumptions,
            "wall_s": wall,
            "violations": nviol,
        });
        let path = format!("{}/evidence/{}.json", root, prop);
        if let Err(e) = fs::write(&path, serde_json::to_string_pretty(&evidence).unwrap_or_default()) {
            eprintln!("cannot write evidence {}: {}", path, e);
        }
    }
    // Known findings.
    for (key, (n, w)) in &merged.known {
        let what = known
            .get(&prop, key)
            .map(|f| f.what.clone())
            .unwrap_or_default();
        println!(
            "KNOWN-FINDING: property={} {} — {} (observed {} times, e.g. {})",
            prop, key, what, n, w
        );
    }
    if replay.is_none() {
        for f in known.for_prop(&prop) {
            if !merged.known.contains_key(&f.key) {
                println!("NOTE: listed finding {} of {} was not observed by this run", f.key, prop);
            }
        }
    }
    // Violations.
    let mut printed = 0;
    if nviol > 0 {
        let dir = format!("{}/replays/{}", root, prop);
        let _ = fs::create_dir_all(&dir);
        for (sig, (n, ws)) in &merged.violations {
            if printed >= 10 {
                break;
            }
            let w = ws.first().cloned().unwrap_or(Value::Null);
            let body = json!({"property": prop, "tier": tier.name(), "seed": seed, "signature": sig, "count": n, "witness": w, "more_witnesses": ws});
            let h = hash_str(&format!("{}{}", sig, w));
            let path = format!("{}/{:016x}.json", dir, h);
            let _ = fs::write(&path, serde_json::to_string_pretty(&body).unwrap_or_default());
            println!("VIOLATION property={} replay={}", prop, path);
            println!("  signature: {} (x{})", sig, n);
            println!("  witness: {}", w);
            printed += 1;
        }
    }
    println!(
        "{} {} seed={}: cases={} evaluations={} distinct_nontrivial={} violations={} known={} inconclusive={} crashes={} timeouts={} wall={:.1}s",
        prop,
        tier.name(),
        seed,
        total,
        merged.evaluations,
        merged.nontrivial.len(),
        nviol,
        merged.known.values().map(|v| v.0).sum::<u64>(),
        merged.inconclusive.values().map(|v| v.0).sum::<u64>(),
        crashes.len(),
        timeouts.len(),
        wall
    );
    let _ = fs::remove_dir_all(&scratch);
    if nviol > 0 {
        return 1;
    }
    if replay.is_some() {
        return 0;
    }
    if !missing_floors.is_empty() {
        println!("INCONCLUSIVE: coverage floors not met: {:?}", missing_floors);
        return 2;
    }
    if merged.evaluations == 0 || merged.nontrivial.len() < 2 || incomplete > 0 {
        println!("INCONCLUSIVE: observed too little (evaluations={}, nontrivial={}, incomplete shards={})", merged.evaluations, merged.nontrivial.len(), incomplete);
        return 2;
    }
    0
}

fn repo_fingerprint() -> String {
    // Hash of the source files of the code under test (so evidence names what it ran against).
    fn walk(dir: &std::path::Path, acc: &mut BTreeMap<String, u64>) {
        if let Ok(rd) = fs::read_dir(dir) {
            for e in rd.flatten() {
                let p = e.path();
                if p.is_dir() {
                    walk(&p, acc);
                }
                else if p.extension().map_or(false, |x| x == "rs") {
                    if let Ok(b) = fs::read(&p) {
                        acc.insert(p.to_string_lossy().to_string(), crate::prng::hash_bytes(&b));
                    }
                }
            }
        }
    }
    let mut acc = BTreeMap::new();
    walk(std::path::Path::new("/repo/src"), &mut acc);
    let mut h = String::new();
    for (k, v) in acc {
        h.push_str(&k);
        h.push_str(&v.to_string());
    }
    format!("{:016x}", hash_str(&h))
}

/// Runs /verif/miri under `cargo +nightly miri run` in 16 shards. Returns a summary for the
/// evidence file and one witness per failing shard. If Miri cannot be started the tier is
/// reported as not run (inconclusive), never as a violation.
fn miri_tier(root: &str, seed: u64) -> (Value, Vec<Value>) {
    let shards = 16usize;
    let count = std::env::var("WAXMON_MIRI_COUNT").ok().and_then(|s| s.parse().ok()).unwrap_or(3usize);
    let manifest = format!("{}/miri/Cargo.toml", root);
    let started = Instant::now();
    // Build once so that the shards do not serialise on the build lock.
    let build = Command::new("cargo")
        .args(["+nightly", "miri", "run", "--manifest-path", &manifest, "--", "0", "1", "0", "0"])
        .env("CARGO_NET_OFFLINE", "true")
        .output();
    match &build {
        Ok(o) if o.status.success() => {},
        Ok(o) => {
            let text = String::from_utf8_lossy(&o.stderr).to_string();
            let tail: String = text.lines().rev().take(15).collect::<Vec<_>>().into_iter().rev().collect::<Vec<_>>().join("\n");
            // The warm-up run executes the failing-expression corpus: a failure here is a finding
            // only if Miri itself ran.
            if text.contains("Undefined Behavior") || text.contains("panicked") {
                return (
                    json!({"ran": true, "failed_in_warm_up": true}),
                    vec![json!({"shard": "warm-up", "output_tail": tail})],
                );
            }
            return (json!({"ran": false, "reason": "cargo +nightly miri could not build or start", "output_tail": tail}), Vec::new());
        },
        Err(e) => return (json!({"ran": false, "reason": format!("cannot start cargo: {}", e)}), Vec::new()),
    }
    let mut children = Vec::new();
    for shard in 0..shards {
        let c = Command::new("cargo")
            .args(["+nightly", "miri", "run", "--manifest-path", &manifest, "--"])
            .arg(shard.to_string())
            .arg(shards.to_string())
            .arg((seed % 1000).to_string())
            .arg(count.to_string())
            .env("CARGO_NET_OFFLINE", "true")
            .stdin(Stdio::null())
            .stdout(Stdio::piped())
            .stderr(Stdio::piped())
            .spawn();
        if let Ok(c) = c {
            children.push((shard, c));
        }
    }
    let mut globs = 0usize;
    let mut errs = 0usize;
    let mut operations = 0usize;
    let mut failures = Vec::new();
    let mut samples = Vec::new();
    let ran = children.len();
    for (shard, c) in children {
        match c.wait_with_output() {
            Ok(o) => {
                let out = String::from_utf8_lossy(&o.stdout).to_string();
                let err = String::from_utf8_lossy(&o.stderr).to_string();
                for l in out.lines() {
                    if l.starts_with("OK ") {
                        globs += 1;
                        if samples.len() < 6 {
                            samples.push(l.to_string());
                        }
                    }
                    else if l.starts_with("ERR-OK ") {
                        errs += 1;
                    }
                    else if let Some(rest) = l.strip_prefix("MIRI-DONE ") {
                        if let Some(n) = rest.rsplit('=').next().and_then(|n| n.parse::<usize>().ok()) {
                            operations += n;
                        }
                    }
                }
                if !o.status.success() {
                    let tail: String = err.lines().rev().take(25).collect::<Vec<_>>().into_iter().rev().collect::<Vec<_>>().join("\n");
                    failures.push(json!({"shard": shard, "status": o.status.code(), "stdout_tail": out.lines().rev().take(3).collect::<Vec<_>>(), "stderr_tail": tail}));
                }
            },
            Err(e) => failures.push(json!({"shard": shard, "error": e.to_string()})),
        }
    }
    (
        json!({"ran": true, "tool": "cargo +nightly miri run (interpreter; detects undefined behaviour, invalid borrows, leaks)", "shards": ran, "globs_exercised": globs, "failing_expressions_exercised": errs, "operations": operations, "failing_shards": failures.len(), "samples": samples, "wall_s": started.elapsed().as_secs_f64()}),
        failures,
    )
}

fn unescape_strace(s: &str) -> String {
    let b = s.as_bytes();
    let mut out: Vec<u8> = Vec::with_capacity(b.len());
    let mut i = 0;
    while i < b.len() {
        if b[i] == b'\\' && i + 1 < b.len() {
            let c = b[i + 1];
            match c {
                b'n' => { out.push(b'\n'); i += 2; },
                b't' => { out.push(b'\t'); i += 2; },
                b'r' => { out.push(b'\r'); i += 2; },
                b'v' => { out.push(0x0b); i += 2; },
                b'f' => { out.push(0x0c); i += 2; },
                b'\\' => { out.push(b'\\'); i += 2; },
                b'"' => { out.push(b'"'); i += 2; },
                b'x' if i + 3 < b.len() => {
                    let h = std::str::from_utf8(&b[i + 2..i + 4]).ok().and_then(|h| u8::from_str_radix(h, 16).ok());
                    match h { Some(v) => { out.push(v); i += 4; }, None => { out.push(b[i]); i += 1; } }
                },
                b'0'..=b'7' => {
                    let mut j = i + 1;
                    let mut v: u32 = 0;
                    while j < b.len() && j < i + 4 && (b'0'..=b'7').contains(&b[j]) {
                        v = v * 8 + u32::from(b[j] - b'0');
                        j += 1;
                    }
                    out.push(v as u8);
                    i = j;
                },
                _ => { out.push(b[i]); i += 1; },
            }
        }
        else {
            out.push(b[i]);
            i += 1;
        }
    }
    String::from_utf8_lossy(&out).to_string()
}

fn normal(p: &str) -> String {
    let pb: std::path::PathBuf = std::path::Path::new(p).components().collect();
    pb.to_string_lossy().to_string()
}

/// Independent syscall-level monitor for C13: one worker runs the first cases of the workload under
/// `strace`; every walk is bracketed by marker `access()` calls; no `getdents64` may be issued on a
/// directory the model says is discarded as a tree, and every other descended directory must be
/// read.
fn strace_tier(exe: &std::path::Path, seed: u64) -> (Value, Vec<Value>) {
    let cases = std::env::var("WAXMON_STRACE_CASES").ok().and_then(|s| s.parse().ok()).unwrap_or(400usize);
    let scratch = std::env::temp_dir().join(format!("waxmon-strace-{}", std::process::id()));
    let _ = fs::remove_dir_all(&scratch);
    if fs::create_dir_all(&scratch).is_err() {
        return (json!({"ran": false, "reason": "cannot create scratch directory"}), Vec::new());
    }
    let scratch_s = scratch.to_string_lossy().to_string();
    if fs::copy(format!("{}/KNOWN_FINDINGS.txt", root_dir()), format!("{}/KNOWN_FINDINGS.txt", scratch_s)).is_err() {
        let _ = fs::remove_dir_all(&scratch);
        return (json!({"ran": false, "reason": "cannot stage KNOWN_FINDINGS.txt"}), Vec::new());
    }
    let trace = format!("{}/trace.txt", scratch_s);
    let out = format!("{}/shard0.json", scratch_s);
    let status = Command::new("strace")
        .args(["-f", "-qq", "-s", "4096", "-e", "trace=openat,getdents64,access", "-o", &trace])
        .arg(exe)
        .args(["worker", "C13", "quick"])
        .arg(seed.to_string())
        .args(["0", "1", &out, &scratch_s, "0", "", &cases.to_string()])
        .env("WAXMON_SYSCALL_MARKERS", "1")
        .current_dir(&scratch)
        .stdin(Stdio::null())
        .stdout(Stdio::null())
        .stderr(Stdio::null())
        .status();
    match status {
        Ok(st) if st.success() => {},
        Ok(st) => {
            let _ = fs::remove_dir_all(&scratch);
            return (json!({"ran": false, "reason": format!("traced worker exited with {:?}", st.code())}), Vec::new());
        },
        Err(e) => {
            let _ = fs::remove_dir_all(&scratch);
            return (json!({"ran": false, "reason": format!("cannot start strace: {}", e)}), Vec::new());
        },
    }
    // Expectations by (pid, seq).
    let mut expect: BTreeMap<(u64, u64), Value> = BTreeMap::new();
    if let Ok(text) = fs::read_to_string(format!("{}/syscall-expectations.jsonl", scratch_s)) {
        for l in text.lines() {
            if let Ok(v) = serde_json::from_str::<Value>(l) {
                let k = (v["pid"].as_u64().unwrap_or(0), v["seq"].as_u64().unwrap_or(0));
                expect.insert(k, v);
            }
        }
    }
    let text = fs::read_to_string(&trace).unwrap_or_default();
    let mut failures = Vec::new();
    let mut walks = 0usize;
    let mut dir_reads = 0usize;
    let mut discarded_checked = 0usize;
    let mut syscalls = 0usize;
    // Per traced pid: current bracket, fd table, directories read.
    let mut cur: BTreeMap<u64, (u64, BTreeMap<i64, String>, std::collections::BTreeSet<String>)> = BTreeMap::new();
    for line in text.lines() {
        let (pid_s, rest) = match line.split_once(' ') {
            Some(x) => x,
            None => continue,
        };
        let pid: u64 = match pid_s.trim().parse() {
            Ok(p) => p,
            Err(_) => continue,
        };
        let rest = rest.trim_start();
        syscalls += 1;
        if let Some(a) = rest.strip_prefix("access(\"") {
            if let Some(end) = a.find("\", ") {
                let path = unescape_strace(&a[..end]);
                if let Some(m) = path.strip_prefix("/waxmon-marker/") {
                    let parts: Vec<&str> = m.split('/').collect();
                    if parts.len() == 3 {
                        let seq: u64 = parts[2].parse().unwrap_or(0);
                        let wpid: u64 = parts[1].parse().unwrap_or(0);
                        if parts[0] == "begin" {
                            cur.insert(pid, (seq, BTreeMap::new(), Default::default()));
                        }
                        else if let Some((s, _, read)) = cur.remove(&pid) {
                            if s == seq {
                                if let Some(e) = expect.get(&(wpid, seq)) {
                                    walks += 1;
                                    let read_n: std::collections::BTreeSet<String> = read.iter().map(|p| normal(p)).collect();
                                    let mut bad_read = Vec::new();
                                    for d in e["discarded"].as_array().cloned().unwrap_or_default() {
                                        discarded_checked += 1;
                                        if let Some(d) = d.as_str() {
                                            if read_n.contains(&normal(d)) {
                                                bad_read.push(d.to_string());
                                            }
                                        }
                                    }
                                    let mut not_read = Vec::new();
                                    for d in e["read_dirs"].as_array().cloned().unwrap_or_default() {
                                        if let Some(d) = d.as_str() {
                                            if !read_n.contains(&normal(d)) {
                                                not_read.push(d.to_string());
                                            }
                                        }
                                    }
                                    if (!bad_read.is_empty() || !not_read.is_empty()) && failures.len() < 5 {
                                        failures.push(json!({"case_index": e["case_index"], "discarded_directories_read(getdents64)": bad_read, "kept_directories_never_read": not_read.iter().take(5).collect::<Vec<_>>()}));
                                    }
                                }
                            }
                        }
                    }
                }
            }
            continue;
        }
        if let Some((_, fds, read)) = cur.get_mut(&pid).map(|c| (c.0, &mut c.1, &mut c.2)) {
            if let Some(a) = rest.strip_prefix("openat(") {
                // openat(AT_FDCWD, "path", flags) = fd
                if let (Some(q1), true) = (a.find('"'), a.contains("O_DIRECTORY")) {
                    let after = &a[q1 + 1..];
                    if let Some(q2) = after.find("\", ") {
                        let path = unescape_strace(&after[..q2]);
                        if let Some(eq) = rest.rfind(" = ") {
                            if let Ok(fd) = rest[eq + 3..].trim().parse::<i64>() {
                                if fd >= 0 {
                                    fds.insert(fd, path);
                                }
                            }
                        }
                    }
                }
            }
            else if let Some(a) = rest.strip_prefix("getdents64(") {
                if let Some(c) = a.find(',') {
                    if let Ok(fd) = a[..c].trim().parse::<i64>() {
                        if let Some(p) = fds.get(&fd) {
                            read.insert(p.clone());
                            dir_reads += 1;
                        }
                    }
                }
            }
        }
    }
    let _ = fs::remove_dir_all(&scratch);
    (
        json!({"ran": true, "tool": "strace -f -e trace=openat,getdents64,access", "cases_traced": cases, "walks_checked": walks, "syscalls_parsed": syscalls, "getdents64_on_directories": dir_reads, "discarded_directories_checked": discarded_checked, "failing_walks": failures.len()}),
        failures,
    )
}
