//! waxmon — runtime monitors for the properties C01..C20 of `wax`.
//!
//!   waxmon run <Cxx> <quick|thorough> [--replay <file>]
//!   waxmon worker <Cxx> <tier> <seed> <shard> <nshards> <outfile> <scratch> [from] [skip,skip,..]

mod case;
mod ctx;
mod driver;
mod findings;
mod fsmodel;
mod walkrun;
mod gen;
mod monitors;
mod prng;
mod refmodel;
mod report;

fn main() {
    let args: Vec<String> = std::env::args().collect();
    let code = match args.get(1).map(|s| s.as_str()) {
        Some("run") => driver::run(&args[2..]),
        Some("worker") => driver::worker(&args[2..]),
        Some("probe") => probe(&args[2..]),
        Some("probe-any") => probe_any(&args[2..]),
        Some("stream") => stream(&args[2..]),
        _ => {
            eprintln!("usage: waxmon run <Cxx> <quick|thorough> [--replay <file>]");
            2
        },
    };
    std::process::exit(code);
}

/// Debugging aid: `waxmon probe <expr> [path..]` prints what the implementation and the model say.
fn probe(args: &[String]) -> i32 {
    use wax::Program;
    let expr = match args.first() {
        Some(e) => e,
        None => return 2,
    };
    match wax::Glob::new(expr) {
        Err(e) => println!("build: Err({})", e),
        Ok(g) => {
            println!("regex: {}", g.verif_program_pattern());
            println!(
                "depth={} text={:?} root={} exhaustive={} semantic={} components={:?}",
                monitors::group_a::depth_str(&g.depth()),
                monitors::group_a::text_str(&g.text()),
                monitors::group_a::when_str(g.has_root()),
                monitors::group_a::when_str(g.is_exhaustive()),
                g.has_semantic_literals(),
                g.verif_walk_component_patterns(),
            );
            println!("captures: {:?}", g.captures().map(|c| (c.index(), c.span())).collect::<Vec<_>>());
            let (prefix, post) = g.clone().partition();
            println!("partition: {:?} + {:?}", prefix, post.map(|p| p.to_string()));
            let model = refmodel::parse::parse(expr).ok().map(refmodel::matcher::ModelPattern::single);
            if let Some(m) = &model {
                println!("model notes: {:?}", m.asts[0].0.notes);
            }
            else {
                println!("model: does not parse: {:?}", refmodel::parse::parse(expr).err());
            }
            for p in &args[1..] {
                let cand = wax::CandidatePath::from(p.as_str());
                let caps: Vec<Option<String>> = g
                    .matched(&cand)
                    .map(|m| (0..6).map(|i| m.get(i).map(|s| s.to_string())).collect())
                    .unwrap_or_default();
                let (may, must) = match &model {
                    Some(m) => {
                        let pc = refmodel::matcher::chars(p);
                        (
                            format!("{:?}", m.matches(&pc, refmodel::matcher::Mode::May, Default::default())),
                            format!("{:?}", m.matches(&pc, refmodel::matcher::Mode::Must, Default::default())),
                        )
                    },
                    None => ("-".into(), "-".into()),
                };
                println!("  {:?}: impl={} may={} must={} caps={:?}", p, g.is_match(p.as_str()), may, must, caps);
            }
        },
    }
    0
}

/// Debugging aid: `waxmon probe-any <expr>.. -- [path..]`.
fn probe_any(args: &[String]) -> i32 {
    use wax::Program;
    let split = args.iter().position(|a| a == "--").unwrap_or(args.len());
    let exprs: Vec<&str> = args[..split].iter().map(|s| s.as_str()).collect();
    match wax::any(exprs.iter().copied()) {
        Err(e) => println!("build: Err({})", e),
        Ok(a) => {
            println!("regex: {}", a.verif_program_pattern());
            println!(
                "depth={} text={:?} root={} exhaustive={}",
                monitors::group_a::depth_str(&a.depth()),
                monitors::group_a::text_str(&a.text()),
                monitors::group_a::when_str(a.has_root()),
                monitors::group_a::when_str(a.is_exhaustive()),
            );
            for p in args.iter().skip(split + 1) {
                println!("  {:?}: {}", p, a.is_match(p.as_str()));
            }
        },
    }
    0
}

/// Debugging aid: `waxmon stream <quick|thorough> <seed> <scale> [substring]` prints the expressions of the
/// shared expression stream (those containing the substring), with their index.
fn stream(args: &[String]) -> i32 {
    let tier = if args.first().map(|s| s.as_str()) == Some("thorough") { ctx::Tier::Thorough } else { ctx::Tier::Quick };
    let seed: u64 = args.get(1).and_then(|s| s.parse().ok()).unwrap_or(1);
    let scale: usize = args.get(2).and_then(|s| s.parse().ok()).unwrap_or(10);
    let st = ctx::ExprStream::new(tier, seed, scale);
    let needle = args.get(3).cloned().unwrap_or_default();
    let mut n = 0;
    for i in 0..st.len() {
        let e = st.at(i);
        if e.contains(&needle) {
            println!("{}\t{}", i, e);
            n += 1;
        }
    }
    eprintln!("{} of {} expressions", n, st.len());
    0
}
