fn main(){}
